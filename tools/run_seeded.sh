#!/bin/bash
# Runs every property's check against each seeded change under "$VERIF"/seeded (or the ids named),
# applying it to /repo and undoing it straight afterwards. Results -> "$VERIF"/seeded/RESULTS.tsv
set -u
TIER=quick
TARGET_ONLY=0
if [ "${1:-}" = "-t" ]; then TIER=$2; shift 2; fi
if [ "${1:-}" = "-p" ]; then TARGET_ONLY=1; shift; fi   # only the property the change was written against
VERIF=$(cd "$(dirname "$0")/.." && pwd)
REPO=${SWEEP_REPO:-/repo}
cd "$VERIF"
if [ -n "$(git -C "$REPO" status --porcelain)" ]; then echo "$REPO not clean"; exit 2; fi
ids=("$@"); [ ${#ids[@]} -gt 0 ] || ids=($(ls "$VERIF"/seeded | grep '^S-'))
out="$VERIF"/seeded/RESULTS.tsv
[ -f "$out" ] || printf "seeded\ttier\tC02\tC04\tC05\tC13\tC14\tC17\n" > "$out"
for id in "${ids[@]}"; do
  p="$VERIF"/seeded/$id/patch.diff
  if ! git -C "$REPO" apply "$p"; then echo "$id: patch does not apply"; continue; fi
  label="${SWEEP_LABEL:-$TIER${VERIF_SEED:+/seed$VERIF_SEED}}"
  row="$id\t$label"
  target=$(echo "$id" | sed 's/^S-\(C[0-9]*\)-.*/\1/')
  for prop in C02 C04 C05 C13 C14 C17; do
    if [ $TARGET_ONLY -eq 1 ] && [ "$prop" != "$target" ]; then row="$row\t."; continue; fi
    o=$(./check $prop $TIER 2>&1); rc=$?
    if [ $rc -eq 1 ]; then
      cls=$(echo "$o" | sed -n 's/^violation detail: .* class=\([^ ]*\) run=\([0-9]*\) ops=\([0-9]*\).*/\1@\2#\3/p' | head -1)
      row="$row\tV:$cls"
      echo "$o" | grep '^violation detail' | head -1 | cut -c1-400 > "$VERIF"/seeded/$id/detected_by_$prop.txt
    elif [ $rc -eq 0 ]; then row="$row\t-"
    else row="$row\tE$rc"; echo "$o" | tail -5
    fi
  done
  git -C "$REPO" checkout -- .
  awk -F'\t' -v n="$id" -v t="$label" '!($1==n && $2==t)' "$out" > "$out.tmp"; mv "$out.tmp" "$out"
  printf "$row\n" | tee -a "$out"
done
rm -f "$VERIF"/replays/*.json
git -C "$REPO" status --porcelain
