#!/usr/bin/env python3
"""Installs a re-run C14 column (id, rc, cell per line) into seeded/RESULTS.tsv: the C14 cell of
every 'quick' row, and of the 'final' row of the changes written against C14."""
import sys
col = {}
for line in open(sys.argv[1]):
    f = line.rstrip("\n").split("\t")
    if len(f) == 3:
        col[f[0]] = f[2]
p = "/verif/seeded/RESULTS.tsv"
out = []
n = 0
for line in open(p):
    f = line.rstrip("\n").split("\t")
    if f[0] in col and (f[1] == "quick" or (f[1] == "final" and f[0].startswith("S-C14-"))):
        if f[6] != col[f[0]]:
            n += 1
        f[6] = col[f[0]]
    out.append("\t".join(f))
open(p, "w").write("\n".join(out) + "\n")
print("cells changed:", n)
