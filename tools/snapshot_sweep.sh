#!/bin/bash
# Runs a sweep (mutants or seeded) from a snapshot of the committed /verif against a scratch
# worktree of /repo, so that /repo and /verif/sim stay free for other work.
# usage: tools/snapshot_sweep.sh mutants|seeded [args...]     results are copied back when done
set -u
kind=$1; shift
snap=/tmp/verif_snap; wt=/tmp/repo_sweep
git -C /verif worktree remove --force $snap 2>/dev/null; rm -rf $snap
git -C /repo worktree remove --force $wt 2>/dev/null; rm -rf $wt
git -C /verif worktree add -q --detach $snap HEAD || exit 2
git -C /repo worktree add -q --detach $wt HEAD || exit 2
sed -i "s#path = \"/repo/chess\"#path = \"$wt/chess\"#" $snap/sim/Cargo.toml
export SWEEP_REPO=$wt
if [ "$kind" = mutants ]; then
  rm -f $snap/mutants/RESULTS.tsv
  $snap/tools/run_mutants.sh "$@"
  cp $snap/mutants/RESULTS.tsv /verif/mutants/RESULTS.tsv
else
  rm -f $snap/seeded/RESULTS.tsv
  $snap/tools/run_seeded.sh "$@"
  cp $snap/seeded/RESULTS.tsv /verif/seeded/RESULTS.tsv
  for d in $snap/seeded/S-*; do cp $d/detected_by_*.txt /verif/seeded/$(basename $d)/ 2>/dev/null; done
fi
git -C /verif worktree remove --force $snap; git -C /repo worktree remove --force $wt
