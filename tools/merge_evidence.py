#!/usr/bin/env python3
"""Merges the per-profile partial results written by owlsim into /verif/evidence/<id>.json
(schema: /root/.vp/EVIDENCE.schema.json, level "exploration"). Every number comes from
the partial files of *this* run; nothing is constant."""
import json
import os
import sys

VERIF = os.path.dirname(os.path.dirname(os.path.abspath(__file__)))

RULES = {
    "C02": "histories of push/make_raw/make_move of every move-like form (Move, uci::Move, san::Move, Uci(str), San(str), UCI lists) "
           "with injected refusals, FEN and raw-board probes, on chains and private searcher boards",
    "C04": "nested make/un-make trees on searcher boards (semilegal incl. king-exposing, null), TryUnchecked rollbacks, chain push/pop, walker movement",
    "C05": "the same histories, hash and all occupancy sets compared with from-scratch recomputation at every valid state, "
           "run-wide key->hash map, single-feature raw edits",
    "C13": "push/pop/outcome/clone/rebuild histories on a MoveChain checked step by step against a reference (start, accepted moves, outcome)",
    "C14": "shuffle-heavy game histories with pops, rebuilds and clock overlays; calc_outcome / set_auto_outcome judged by outcome class, "
           "repetition counts compared exactly (hook) and through an instrumented Repeat table",
    "C17": "read phases with 1-4 interleaved walkers and printers (all NumberPolicy x Style x GameStatusPolicy, failing sinks, harness-written SAN as the expected text) over chains built by histories",
}

# Rare-condition probes each property's workload is expected to reach; one that stays at
# zero is listed under probes_at_zero and is a defect of the workload.
COMMON_PROBES = ["castle-k-made", "castle-k-undone", "castle-q-made", "castle-q-undone", "ep-made", "ep-undone",
                 "double-made", "double-undone", "promo-made", "promo-undone", "rollback-king-exposing",
                 "promotion-with-capture", "promotion-capturing-rook-on-home-square", "ep-on-edge-file",
                 "castling-with-a-single-right", "capture-of-home-rook-that-still-had-its-right",
                 "push-right-after-pop", "refusal-right-after-pop", "refusal-right-after-special-move"]
EXPECTED_PROBES = {
    "C02": COMMON_PROBES + ["fen-accepted", "raw-accepted", "raw-rejected"],
    "C04": COMMON_PROBES + ["null-made", "null-undone", "king-attacked-after-make", "unmake-from-king-attacked-state",
                            "rook-captured-on-home-square"],
    "C05": COMMON_PROBES + ["null-made", "null-undone", "same-key-revisited", "single-feature-diff", "counters-ignored-by-hash",
                            "raw-accepted", "king-attacked-after-make"],
    "C13": COMMON_PROBES + ["pop-of-position-counted-twice"],
    "C14": COMMON_PROBES + ["repeat3", "repeat5", "moves50", "moves75", "insufficient", "stalemate", "checkmate",
                            "repeat3-with-moves50", "repeat5-with-moves50", "auto-outcome-stored", "auto-outcome-filtered",
                            "deep-repeat-check", "pop-of-position-counted-twice", "pop-of-position-counted-3-or-more"],
    "C17": COMMON_PROBES + ["walker-direction-reversal", "walker-jump-start", "walker-jump-end", "print-black-start-numbered",
                            "sink-error-at-byte-0", "sink-error-later"],
}

ASSUMPTIONS = [
    "exploration, not proof: seeded sampling of operation histories; a clean batch is evidence only for the histories explored",
    "reference model (mailbox move generator, attack test, material rule) is trusted; it is self-tested against published perft counts before every check",
    "no scheduler or clock dimension exists in owlchess: 'simulated time' is logical steps; the fault dimension is refusals, partial application, rebuild-from-record, failing fmt sinks, counter edges and build profile",
    "histories are bounded: <= 2600 steps per run, <= 1100 plies per chain, searcher depth <= 8, <= 300 nodes per searcher",
    "a 64-bit hash collision between two different positions inside one game is treated as unreachable",
    "generator never breaks documented panic / unsafe preconditions (push with a stored outcome, unchecked make of a non-semilegal move, Custom(n) > 2^32, san::Data::Simple with a pawn)",
]


def main():
    pid, tier, seed = sys.argv[1], sys.argv[2], int(sys.argv[3])
    parts = []
    missing = []
    for prof in ("release", "checked"):
        try:
            with open(f"{VERIF}/evidence/.partial/{pid}.{prof}.json") as f:
                parts.append(json.load(f))
        except OSError:
            missing.append(prof)  # the batch process of that profile died (crash triage took over)
    if not parts:
        parts.append({"profile": "none", "runs": 0, "steps_total": 0, "wall_s": 0.0, "nontrivial_set_hash": "", "nontrivial_distinct": 0,
                      "violations": 1, "samples": [], "inapplicable_steps": 0, "distinct_positions": 0, "distinct_positions_capped": False,
                      "distinct_op_trigrams": 0, "max_accepted_pushes_in_one_run": 0, "batch_digest": ""})

    def add_maps(key):
        out = {}
        for p in parts:
            for k, v in p.get(key, {}).items():
                out[k] = out.get(k, 0) + v
        return dict(sorted(out.items()))

    runs = sum(p["runs"] for p in parts)
    steps = sum(p["steps_total"] for p in parts)
    wall = sum(p["wall_s"] for p in parts)
    same_set = len({p["nontrivial_set_hash"] for p in parts}) == 1
    distinct = parts[0]["nontrivial_distinct"] if same_set else max(p["nontrivial_distinct"] for p in parts)
    violations = sum(p["violations"] for p in parts) + len(missing)
    probes = add_maps("probes")
    for k in EXPECTED_PROBES[pid]:
        probes.setdefault(k, 0)
    probes = dict(sorted(probes.items()))
    zero_probes = sorted(k for k, v in probes.items() if v == 0)
    samples = next((p["samples"] for p in parts if p["samples"]), [])
    if not samples:
        samples = [{"note": "no non-trivial run among the first 64 run indices of this batch"}]
    coverage = {
        "evaluations": runs,
        "distinct_nontrivial": distinct,
        "rule": RULES[pid] + ". One evaluation = one simulated run (one seed) under one build profile; the two profiles execute the same seeds. "
                "A run is non-trivial if it contained at least one accepted push, at least one injected fault that actually fired and at least one "
                "pop or un-make; distinct = number of distinct digests of (operation log + every observed result) among non-trivial runs"
                + ("" if same_set else " (profiles produced different digest sets; the larger count is reported)"),
        "samples": samples,
        "steps_total": steps,
        "inapplicable_steps": sum(p["inapplicable_steps"] for p in parts),
        "runs_per_profile": {p["profile"]: p["runs"] for p in parts},
        "runs_per_hour": int(runs / wall * 3600) if wall > 0 else 0,
        "seeds_per_hour": int(parts[0]["runs"] / wall * 3600) if wall > 0 else 0,
        "simulated_time": "no clock in the code under test; logical steps only (steps_total)",
        "faults_fired": add_maps("faults_fired"),
        "probes": probes,
        "probes_at_zero": zero_probes,
        "operations": add_maps("ops"),
        "notes": add_maps("notes"),
        "start_families": add_maps("start_families"),
        "counter_overlays": add_maps("counter_overlays"),
        "distinct_positions": max(p["distinct_positions"] for p in parts),
        "distinct_positions_capped": any(p["distinct_positions_capped"] for p in parts),
        "distinct_op_trigrams": max(p["distinct_op_trigrams"] for p in parts),
        "max_accepted_pushes_in_one_run": max(p["max_accepted_pushes_in_one_run"] for p in parts),
        "profiles_run": [p["profile"] for p in parts],
        "batch_digests": {p["profile"]: p["batch_digest"] for p in parts},
        "components": {
            "real": ["owlchess (all of /repo/chess, built from the working tree with feature verif)", "owlchess_base"],
            "stub": [],
            "model": ["refmodel.rs (stateless rules model)", "RefChain (start, accepted moves, keys, outcome)", "SpyRepeat (instrumented Repeat seam)"],
        },
        "known_findings_hit": add_maps("known_findings_hit"),
        "profiles_whose_batch_process_died": missing,
        "violation": next((p["violation"] for p in parts if p.get("violation")), None),
        "exhaustive": False,
    }
    ev = {
        "property_id": pid,
        "tier": tier,
        "seed": seed,
        "level": "exploration",
        "coverage": coverage,
        "assumptions": ASSUMPTIONS,
        "wall_s": round(wall, 3),
        "violations": violations,
    }
    with open(f"{VERIF}/evidence/{pid}.json", "w") as f:
        json.dump(ev, f, indent=1)
        f.write("\n")


if __name__ == "__main__":
    main()
