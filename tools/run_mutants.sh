#!/bin/bash
# Sensitivity sweep: applies each patch of "$VERIF"/mutants (or the ones named on the command
# line) to /repo, runs the library's own tests and every property's quick check, records
# which checks fire, and restores /repo. Never commits anything to /repo.
# usage: tools/run_mutants.sh [-t tier] [patch ...]       results -> "$VERIF"/mutants/RESULTS.tsv
set -u
TIER=quick
if [ "${1:-}" = "-t" ]; then TIER=$2; shift 2; fi
VERIF=$(cd "$(dirname "$0")/.." && pwd)
REPO=${SWEEP_REPO:-/repo}
cd "$VERIF"
if [ -n "$(git -C "$REPO" status --porcelain)" ]; then echo "$REPO not clean"; exit 2; fi
patches=("$@"); [ ${#patches[@]} -gt 0 ] || patches=("$VERIF"/mutants/*.patch)
out="$VERIF"/mutants/RESULTS.tsv
[ -f "$out" ] || printf "mutant\ttests\tC02\tC04\tC05\tC13\tC14\tC17\n" > "$out"
for p in "${patches[@]}"; do
  name=$(basename "$p" .patch)
  if ! git -C "$REPO" apply "$p"; then echo "$name: patch does not apply"; continue; fi
  t=$(cd "$REPO" && CARGO_NET_OFFLINE=true cargo test --workspace --no-fail-fast --offline 2>&1 | grep -E "^test result" | awk '{p+=$4; f+=$6} END {print p"/"f}')
  row="$name\t$t"
  for id in C02 C04 C05 C13 C14 C17; do
    o=$(./check $id $TIER 2>&1); rc=$?
    if [ $rc -eq 1 ]; then
      cls=$(echo "$o" | sed -n 's/^violation detail: .* class=\([^ ]*\) run=\([0-9]*\) ops=\([0-9]*\).*/\1@\2#\3/p' | head -1)
      row="$row\tV:$cls"
    elif [ $rc -eq 0 ]; then row="$row\t-"
    else row="$row\tE$rc"; echo "$o" | tail -5
    fi
  done
  git -C "$REPO" checkout -- .
  grep -v "^$name	" "$out" > "$out.tmp"; mv "$out.tmp" "$out"
  printf "$row\n" | tee -a "$out"
done
rm -f "$VERIF"/replays/*.json
git -C "$REPO" status --porcelain
