#!/usr/bin/env python3
"""Generates the sensitivity mutants of DESIGN.md section 9 as patches against /repo HEAD
(written to /verif/mutants/*.patch). Each is a textual replacement; the patch is produced
by `git diff` and /repo is restored afterwards. Nothing here is ever committed to /repo."""
import subprocess, sys, os

REPO = "/repo"
OUT = "/verif/mutants"

M = [
 # name, file, old, new, expected properties
 ("c02_no_rollback", "chess/src/moves/make.rs",
  "            unsafe { base::unmake_move_unchecked(board, self.0, undo) };\n            return Err(ValidateError::NotLegal);",
  "            let _ = undo;\n            return Err(ValidateError::NotLegal);", "C02 C04 C13"),
 ("c02_no_semi_validate", "chess/src/moves/make.rs",
  "    fn make_raw(&self, board: &mut Board) -> Result<(Move, RawUndo), Self::Err> {\n        self.semi_validate(board)?;\n        unsafe { TryUnchecked::new(*self) }.make_raw(board)",
  "    fn make_raw(&self, board: &mut Board) -> Result<(Move, RawUndo), Self::Err> {\n        if *self == Move::NULL { return Err(ValidateError::NotSemiLegal); }\n        unsafe { TryUnchecked::new(*self) }.make_raw(board)", "C02"),
 ("c02_skip_all_update_castle", "chess/src/moves/base.rs",
  "    if C::COLOR == Color::Black {\n        b.r.move_number = b.r.move_number.saturating_add(1);\n    }\n    b.all = b.white | b.black;",
  "    if C::COLOR == Color::Black {\n        b.r.move_number = b.r.move_number.saturating_add(1);\n    }\n    if mv.kind != MoveKind::CastlingQueenside { b.all = b.white | b.black; }", "C02 C05 C13"),
 ("c04_unmake_forgets_ep", "chess/src/moves/base.rs",
  "    b.r.ep_source = u.ep_source;\n    b.r.move_counter = u.move_counter;",
  "    if mv.kind != MoveKind::Enpassant { b.r.ep_source = u.ep_source; }\n    b.r.move_counter = u.move_counter;", "C04 C13"),
 ("c04_promo_unmake_wrong_set", "chess/src/moves/base.rs",
  "            *b.piece_mut(pawn) ^= src;\n            *b.piece_mut(src_cell) ^= dst;\n            if dst_cell.is_occupied() {",
  "            *b.piece_mut(pawn) ^= src;\n            if mv.kind != MoveKind::PromoteRook { *b.piece_mut(src_cell) ^= dst; }\n            if dst_cell.is_occupied() {", "C04 C05"),
 ("c04_qcastle_unmake_mask", "chess/src/moves/base.rs",
  "    *b.piece_mut(rook) ^= Bitboard::from_raw(0x09 << C::CASTLING_OFFSET);",
  "    *b.piece_mut(rook) ^= Bitboard::from_raw((if inv { 0x11 } else { 0x09 }) << C::CASTLING_OFFSET);", "C04 C05"),
 ("c04_move_number_not_restored", "chess/src/moves/base.rs",
  "    b.r.move_number = u.move_number;\n",
  "    if mv.kind != MoveKind::Null { b.r.move_number = u.move_number; }\n", "C04"),
 ("c05_double_push_no_ep_key", "chess/src/moves/base.rs",
  "        b.r.ep_source = Some(mv.dst);\n        b.hash ^= zobrist::enpassant(mv.dst);",
  "        b.r.ep_source = Some(mv.dst);\n        if C::COLOR == Color::White || mv.dst.file() != File::H { b.hash ^= zobrist::enpassant(mv.dst); }", "C05 C14"),
 ("c05_castling_rights_no_rekey", "chess/src/moves/base.rs",
  "    if castling != b.r.castling {\n        b.hash ^= zobrist::castling(b.r.castling);\n        b.r.castling = castling;\n        b.hash ^= zobrist::castling(b.r.castling);",
  "    if castling != b.r.castling {\n        b.hash ^= zobrist::castling(b.r.castling);\n        b.r.castling = castling;\n        if castling != CastlingRights::EMPTY { b.hash ^= zobrist::castling(b.r.castling); }", "C05"),
 ("c05_castle_delta_swapped_black", "chess/src/moves/base.rs",
  "        b.hash ^= zobrist::castling_delta(C::COLOR, CastlingSide::Queen);",
  "        b.hash ^= zobrist::castling_delta(C::COLOR, if C::COLOR == Color::Black { CastlingSide::King } else { CastlingSide::Queen });", "C05"),
 ("c05_promo_capture_forgets_key", "chess/src/moves/base.rs",
  "            b.hash ^= zobrist::pieces(src_cell, mv.src)\n                ^ zobrist::pieces(promote, mv.dst)\n                ^ zobrist::pieces(dst_cell, mv.dst);",
  "            b.hash ^= zobrist::pieces(src_cell, mv.src)\n                ^ zobrist::pieces(promote, mv.dst);\n            if mv.kind != MoveKind::PromoteBishop { b.hash ^= zobrist::pieces(dst_cell, mv.dst); }", "C05"),
 ("c13_pop_keeps_outcome", "chess/src/chain.rs",
  "        self.repeat.pop(&self.board);\n        self.clear_outcome();",
  "        self.repeat.pop(&self.board);\n        if self.stack.len() % 7 != 3 { self.clear_outcome(); }", "C13"),
 ("c13_list_continues_after_error", "chess/src/chain.rs",
  "            self.push(make::Uci(token))\n                .map_err(|source| UciParseError { pos, source })?;",
  "            let r = self.push(make::Uci(token))\n                .map_err(|source| UciParseError { pos, source });\n            if pos == 0 { r?; } else if r.is_err() { return r; }", "none(equivalent)"),
 ("c13_list_wrong_pos", "chess/src/chain.rs",
  "                .map_err(|source| UciParseError { pos, source })?;",
  "                .map_err(|source| UciParseError { pos: if pos > 2 { pos - 1 } else { pos }, source })?;", "C13"),
 ("c13_eq_ignores_outcome", "chess/src/chain.rs",
  "            || self.outcome != other.outcome\n",
  "            || (self.outcome.is_some() != other.outcome.is_some())\n", "C13"),
 ("c13_eq_ignores_last_move", "chess/src/chain.rs",
  "        self.stack\n            .iter()\n            .zip(other.stack.iter())\n            .all(|((m1, _), (m2, _))| m1 == m2)",
  "        self.stack\n            .iter()\n            .zip(other.stack.iter())\n            .skip(1)\n            .all(|((m1, _), (m2, _))| m1 == m2)", "C13"),
 ("c14_threshold_3_to_4_after_pop", "chess/src/chain.rs",
  "        if rep >= 3 {\n            return Some(Outcome::Draw(DrawReason::Repeat3));",
  "        if rep >= 3 && !(rep == 3 && self.board.r.move_counter >= 100) {\n            return Some(Outcome::Draw(DrawReason::Repeat3));", "none(equivalent: Moves50 is also claimable)"),
 ("c14_rep5_is_6", "chess/src/chain.rs",
  "        if rep >= 5 {",
  "        if rep >= 6 {", "tests-fail?"),
 ("c14_pop_skips_repeat", "chess/src/chain.rs",
  "        let (m, u) = self.stack.pop()?;\n        self.repeat.pop(&self.board);",
  "        let (m, u) = self.stack.pop()?;\n        if m.kind() != crate::moves::MoveKind::PawnDouble { self.repeat.pop(&self.board); }", "C14"),
 ("c14_moves50_before_repeat5", "chess/src/chain.rs",
  "        let outcome = self.board.calc_outcome();\n        if let Some(out) = outcome {\n            if out.passes(OutcomeFilter::Strict) {\n                return outcome;\n            }\n        }",
  "        let outcome = self.board.calc_outcome();\n        if let Some(out) = outcome {\n            if out.passes(OutcomeFilter::Relaxed) {\n                return outcome;\n            }\n        }", "C14"),
 ("c14_strict_admits_moves50", "chess_base/src/types.rs",
  "                Self::Draw(\n                    DrawReason::InsufficientMaterial | DrawReason::Moves75 | DrawReason::Repeat5\n                )",
  "                Self::Draw(\n                    DrawReason::InsufficientMaterial | DrawReason::Moves75 | DrawReason::Repeat5 | DrawReason::Moves50\n                )", "C14"),
 ("c14_hashrepeat_pop_no_remove", "chess/src/chain.rs",
  "        *r -= 1;\n        if *r == 0 {\n            self.0.remove(&hash);\n        }",
  "        if *r > 1 { *r -= 1; } else if *r == 1 { self.0.remove(&hash); }", "none(equivalent)"),
 ("c14_hashrepeat_double_dec", "chess/src/chain.rs",
  "        *r -= 1;\n        if *r == 0 {",
  "        *r -= if *r >= 4 { 2 } else { 1 };\n        if *r == 0 {", "C14"),
 ("c17_walker_start_resets_board_pos", "chess/src/chain.rs",
  "    pub fn start(&mut self) {\n        self.pos = 0;",
  "    pub fn start(&mut self) {\n        if self.board_pos + 3 == self.stack.len() { self.board_pos = 0; }\n        self.pos = 0;", "C17"),
 ("c17_walker_prev_off_by_one", "chess/src/chain.rs",
  "        self.pos -= 1;\n        self.set_board_pos(self.pos);",
  "        self.pos -= 1;\n        self.set_board_pos(if self.pos + 1 == self.stack.len() && self.pos > 4 { self.pos + 1 } else { self.pos });", "C17"),
 ("c17_black_start_prints_dot", "chess/src/chain.rs",
  "                Color::Black => write!(f, \"{}... \", num)?,",
  "                Color::Black => if num > 1 { write!(f, \"{}... \", num)? } else { write!(f, \"{}. \", num)? },", "C17"),
 ("c17_black_win_token", "chess_base/src/types.rs",
  "            Some(Outcome::Win {\n                side: Color::Black, ..\n            }) => Self::Black,",
  "            Some(Outcome::Win {\n                side: Color::Black, reason: WinReason::Abandon\n            }) => Self::White,\n            Some(Outcome::Win {\n                side: Color::Black, ..\n            }) => Self::Black,", "C17"),
 ("c17_custom_number_offset", "chess/src/chain.rs",
  "                        b.raw().move_number as usize - real_start_num + num",
  "                        b.raw().move_number as usize - real_start_num + num + (num == 0) as usize", "C17"),
 ("d1_reintroduced", "chess/src/legal.rs",
  "                if mv.kind() == MoveKind::Enpassant {",
  "                if mv.kind() == MoveKind::Enpassant && false {", "C02 C13 C14"),
 ("d2_reintroduced_uci", "chess/src/moves/uci.rs",
  "        if !matches!(s.len(), 4 | 5) || !s.is_ascii() {",
  "        if !matches!(s.len(), 4 | 5) {", "C02 C13"),
 ("d2_reintroduced_san", "chess/src/moves/san.rs",
  "            if bytes.len() < 2 {\n                return Err(RawParseError::Syntax);\n            }\n            let (bytes, dst_bytes) = bytes.split_at(bytes.len() - 2);",
  "            let (bytes, dst_bytes) = bytes.split_at(bytes.len() - 2);", "C02 C13"),
 ("d3_reintroduced_clock", "chess/src/moves/base.rs",
  "        b.r.move_counter = b.r.move_counter.saturating_add(1);",
  "        b.r.move_counter += 1;", "C02"),
 ("d3_reintroduced_number", "chess/src/moves/base.rs",
  "        b.r.move_number = b.r.move_number.saturating_add(1);",
  "        b.r.move_number += 1;", "C02"),
]

def sh(*a, **k):
    return subprocess.run(a, cwd=REPO, check=True, capture_output=True, text=True, **k)

def main():
    st = sh("git", "status", "--porcelain").stdout.strip()
    if st:
        print("/repo is not clean:", st); sys.exit(1)
    os.makedirs(OUT, exist_ok=True)
    idx = []
    for name, file, old, new, exp in M:
        p = os.path.join(REPO, file)
        s = open(p).read()
        if s.count(old) != 1:
            print(f"!! {name}: pattern occurs {s.count(old)} times in {file}"); continue
        open(p, "w").write(s.replace(old, new))
        d = sh("git", "diff").stdout
        open(os.path.join(OUT, name + ".patch"), "w").write(d)
        sh("git", "checkout", "--", ".")
        idx.append(f"{name}\t{exp}")
    open(os.path.join(OUT, "EXPECTED.tsv"), "w").write("\n".join(idx) + "\n")
    print(len(idx), "mutants written")

main()
