#!/usr/bin/env python3
"""Installs re-run C02 and C14 columns (name, C02 cell, C14 cell per line) into mutants/RESULTS.tsv."""
import sys
col = {}
for line in open(sys.argv[1]):
    f = line.rstrip("\n").split("\t")
    if len(f) == 3:
        col[f[0]] = (f[1], f[2])
p = "/verif/mutants/RESULTS.tsv"
out = []
n = 0
for line in open(p):
    f = line.rstrip("\n").split("\t")
    if f[0] in col:
        for idx, v in ((2, col[f[0]][0]), (6, col[f[0]][1])):
            if f[idx] != v:
                n += 1
                print(f[0], ["", "", "C02", "", "", "", "C14"][idx], f[idx], "->", v)
            f[idx] = v
    out.append("\t".join(f))
open(p, "w").write("\n".join(out) + "\n")
print("cells changed:", n)
