//! Start-position families S0..S4 and the counter overlay. Every start is admitted
//! through the real gate `Board::try_from` (never through the library's FEN parser).

use crate::full::{pos_of, raw_of_pos};
use crate::refmodel::{self as rm, cell, sq, Pos};
use crate::rng::Rng;
use owlchess::Board;

/// S1: curated corpus. FENs from the repository's own tests, perft classics and
/// corners the properties mention.
pub const CORPUS: &[&str] = &[
    "rnbqkbnr/pppppppp/8/8/8/8/PPPPPPPP/RNBQKBNR w KQkq - 0 1",
    "r3k2r/p1ppqpb1/bn2pnp1/3PN3/1p2P3/2N2Q1p/PPPBBPPP/R3K2R w KQkq - 0 1",
    "8/2p5/3p4/KP5r/1R3p1k/8/4P1P1/8 w - - 0 1",
    "r3k2r/Pppp1ppp/1b3nbN/nP6/BBP1P3/q4N2/Pp1P2PP/R2Q1RK1 w kq - 0 1",
    "r2q1rk1/pP1p2pp/Q4n2/bbp1p3/Np6/1B3NBn/pPPP1PPP/R3K2R b KQ - 0 1",
    "rnbq1k1r/pp1Pbppp/2p5/8/2B5/8/PPP1NnPP/RNBQK2R w KQ - 1 8",
    "r4rk1/1pp1qppp/p1np1n2/2b1p1B1/2B1P1b1/P1NP1N2/1PP1QPPP/R4RK1 w - - 0 10",
    // repository tests
    "rnbqk1nr/ppp1bppp/3p4/4p3/2B1P3/5N2/PPPP1PPP/RNBQ1RK1 b kq - 3 4",
    "1rq1r1k1/1p3ppp/pB3n2/3ppP2/Pbb1P3/1PN2B2/2P2QPP/R1R4K w - - 1 21",
    "r1b1k2r/2qnbppp/p2ppn2/1p4B1/3NPPP1/2N2Q2/PPP4P/2KR1B1R w kq - 0 11",
    "r1bqk2r/ppp2ppp/2np1n2/1Bb1p3/4P3/2PP1N2/PP3PPP/RNBQK2R w KQkq - 0 6",
    "r1bqkb1r/pppp1ppp/2n2n2/1B2p3/4P3/5N2/PPPP1PPP/RNBQK2R w KQkq - 2 4",
    "rn1qkbnr/ppp2p1p/3p2p1/4N3/2B1P3/2N5/PPPP1PPP/R1BbK2R w KQkq - 0 6",
    "3K4/3p4/8/3PpP2/8/5p2/6P1/2k5 w - e6 0 1",
    "3K4/3p4/8/3PpP2/6P1/5p2/8/2k5 b - g3 0 1",
    "7n/6P1/8/2PpP2r/2P1P1P1/7q/6P1/3k1K2 w - d6 0 1",
    "8/PPPPPPPP/8/2k1K3/8/8/pppppppp/8 w - - 0 1",
    "2n2n1n/3P2P1/8/8/8/8/3K1k2/8 w - - 0 1",
    "4r1k1/3R1ppp/8/5P2/p7/6PP/4pK2/1rN1B3 w - - 4 43",
    "3R3B/8/3R4/1NP1Q3/3p4/1NP5/5B2/3R1K1k w - - 0 1",
    "3Q4/1Q4Q1/4Q3/2Q4R/Q4Q2/3Q4/NR4Q1/kN1BB1K1 w - - 0 1",
    "5K2/1N1N1N2/8/1N1N1N2/1n1n1n2/8/1n1n1n2/5k2 w - - 0 1",
    "4k3/pppppppp/8/8/8/8/PPPPPPPP/4K3 w - - 0 1",
    "4k3/8/8/pppppppp/PPPPPPPP/8/8/4K3 w - - 0 1",
    "8/8/8/2PpP3/8/8/5k1K/8 w - d6 0 1",
    "8/8/1p6/2P5/1p5k/2P5/7K/8 w - - 0 1",
    "6kb/R7/8/4P3/8/1p6/1K6/2r4r w - - 0 1",
    "k5K1/8/p4q2/1P4n1/8/2P5/5q2/8 b - - 0 1",
    "5k2/8/8/8/8/8/8/4K2R w K - 0 1",
    // castling-rights / rook-capture corners
    "r3k2r/8/8/8/8/8/8/R3K2R w KQkq - 0 1",
    "r3k2r/8/8/8/8/8/8/R3K2R b KQkq - 0 1",
    "r3k2r/1P4P1/8/8/8/8/1p4p1/R3K2R w KQkq - 0 1",
    "r3k2r/1P4P1/8/8/8/8/1p4p1/R3K2R b KQkq - 0 1",
    "r3k2r/8/8/8/8/8/6b1/R3K2R b KQkq - 0 1",
    "r3k2r/6B1/8/8/8/8/8/R3K2R w KQkq - 0 1",
    "r3k2r/8/8/8/8/5n2/8/R3K2R w KQkq - 0 1",
    "r3k2r/8/8/4Q3/8/8/8/R3K2R b KQkq - 0 1",
    "1r2k2r/8/8/8/8/8/8/R3K1R1 w Qk - 0 1",
    "rn2k2r/8/8/8/8/8/8/R3K1NR w KQkq - 0 1",
    "r3k2r/p6p/8/8/8/8/P6P/R3K2R w KQkq - 0 1",
    "4k2r/8/8/8/8/8/8/R3K2R w KQk - 3 9",
    // promotion races and under-promotion
    "8/P6k/8/8/8/8/p6K/8 w - - 0 1",
    "1n1n4/P1P4k/8/8/8/8/p1p4K/1N1N4 w - - 0 1",
    "1n1n4/P1P4k/8/8/8/8/p1p4K/1N1N4 b - - 0 1",
    "r3k3/1P6/8/8/8/8/1p6/R3K3 w Qq - 0 1",
    "r3k3/1P6/8/8/8/8/1p6/R3K3 b Qq - 0 1",
    // en passant on both flanks, both colours, with pins and discovered checks
    "8/8/8/K2Pp2r/8/8/8/7k w - e6 0 1",
    "8/8/8/k2pP2R/8/8/8/7K b - - 0 1",
    "7K/8/8/8/k2pP2R/8/8/8 b - e3 0 1",
    "4k3/8/8/pP6/8/8/8/4K3 w - a6 0 1",
    "4k3/8/8/6Pp/8/8/8/4K3 w - h6 0 1",
    "4k3/8/8/8/Pp6/8/8/4K3 b - a3 0 1",
    "4k3/8/8/8/6pP/8/8/4K3 b - h3 0 1",
    "4k3/8/8/2PpP3/8/8/8/4K3 w - d6 0 1",
    "4k3/8/8/8/2pPp3/8/8/4K3 b - d3 0 1",
    "8/8/3k4/8/2pP4/8/B7/4K3 b - d3 0 1",
    "8/b7/8/2Pp4/3K4/8/8/7k w - d6 0 1",
    "4k3/8/8/q1pP3K/8/8/8/8 w - c6 0 1",
    "3k4/3r4/8/3Pp3/8/8/3K4/8 w - e6 0 1",
    "8/8/8/8/k1Pp3Q/8/8/4K3 b - c3 0 1",
    "rnbqkbnr/ppp1pppp/8/8/3pP3/8/PPPP1PPP/RNBQKBNR b KQkq e3 0 3",
    "rnbqkbnr/pppp1ppp/8/3Pp3/8/8/PPP1PPPP/RNBQKBNR w KQkq e6 0 3",
    // pins, checks, double checks, mates and stalemates nearby
    "4k3/4r3/8/8/8/8/4R3/4K3 w - - 0 1",
    "4k3/8/8/b7/8/8/3N4/4K3 w - - 0 1",
    "4k3/8/8/8/8/5n2/4r3/4K3 w - - 0 1",
    "6k1/5ppp/8/8/8/8/8/R3K3 w Q - 0 1",
    "7k/5Q2/6K1/8/8/8/8/8 b - - 0 1",
    "7k/5Q2/5K2/8/8/8/8/8 w - - 0 1",
    "k7/2Q5/1K6/8/8/8/8/8 b - - 4 60",
    "r1bqkb1r/pppp1ppp/2n2n2/4p2Q/2B1P3/8/PPPP1PPP/RNB1K1NR w KQkq - 4 4",
    "rnb1kbnr/pppp1ppp/8/4p3/6Pq/5P2/PPPPP2P/RNBQKBNR w KQkq - 1 3",
    // material corners
    "8/8/8/3k4/8/8/1K6/8 w - - 10 42",
    "8/8/8/3k4/8/8/1KN5/8 w - - 0 1",
    "8/8/8/3k4/8/8/1KB5/8 w - - 0 1",
    "8/8/4b3/3k4/8/8/1KB5/8 w - - 0 1",
    "8/8/3b4/3k4/8/8/1KB5/8 w - - 0 1",
    "8/8/8/3k4/8/2n5/1KB5/8 w - - 0 1",
    "8/8/8/3k4/8/1p6/1K6/8 w - - 0 1",
    "8/8/8/3kn3/8/2N5/1K6/8 w - - 0 1",
    // quiet positions with mating material (for the clock thresholds and repetition)
    "8/8/8/3k4/8/8/1K5R/8 w - - 0 1",
    "8/8/8/3k4/8/8/1K5R/8 b - - 0 1",
    "8/6r1/8/3k4/8/8/1K5Q/8 w - - 0 1",
    "8/8/8/3k4/8/8/1K3BN1/8 w - - 0 1",
    "6r1/8/8/3k4/8/8/1K3R1R/8 b - - 0 1",
    "r5k1/5ppp/8/8/8/8/5PPP/R5K1 w - - 0 1",
    "2r3k1/5ppp/8/8/8/8/5PPP/2R3K1 b - - 12 30",
    "r1bq1rk1/pppp1ppp/2n2n2/2b1p3/2B1P3/2NP1N2/PPP2PPP/R1BQ1RK1 w - - 6 7",
];

#[derive(Clone, Copy, Debug, PartialEq, Eq)]
pub enum Family {
    S0,
    S1,
    S2,
    S3,
    S4,
    S5,
}

impl Family {
    pub fn name(&self) -> &'static str {
        match self {
            Family::S0 => "S0-initial",
            Family::S1 => "S1-corpus",
            Family::S2 => "S2-random-placement",
            Family::S3 => "S3-enpassant-line",
            Family::S4 => "S4-playout",
            Family::S5 => "S5-single-special-move",
        }
    }
}

pub fn admit(p: &Pos) -> Option<Board> {
    Board::try_from(raw_of_pos(p)).ok()
}

pub fn initial() -> Board {
    admit(&Pos::from_fen(CORPUS[0]).unwrap()).expect("initial position must be admitted")
}

fn corpus(rng: &mut Rng) -> Board {
    for _ in 0..8 {
        let fen = CORPUS[rng.below(CORPUS.len())];
        if let Some(b) = Pos::from_fen(fen).and_then(|p| admit(&p)) {
            return b;
        }
    }
    initial()
}

/// Quiet positions with mating material and few captures nearby (tail of the corpus).
fn quiet(rng: &mut Rng) -> Board {
    let n = CORPUS.len();
    let fen = CORPUS[n - 8 + rng.below(8)];
    Pos::from_fen(fen).and_then(|p| admit(&p)).unwrap_or_else(initial)
}

fn random_placement(rng: &mut Rng) -> Option<Pos> {
    let mut p = Pos::empty();
    p.white = rng.chance(50);
    let mut free = |p: &Pos, rng: &mut Rng, rows: &[i32]| -> Option<usize> {
        for _ in 0..20 {
            let r = rows[rng.below(rows.len())];
            let f = rng.below(8) as i32;
            let s = sq(f, r);
            if p.sq[s] == rm::EMPTY {
                return Some(s);
            }
        }
        None
    };
    let all_rows: Vec<i32> = (0..8).collect();
    // kings, biased to their home squares
    let wk = if rng.chance(45) { 60 } else { free(&p, rng, &all_rows)? };
    p.sq[wk] = cell(true, rm::K);
    let bk = if rng.chance(45) && p.sq[4] == rm::EMPTY { 4 } else { free(&p, rng, &all_rows)? };
    if p.sq[bk] != rm::EMPTY {
        return None;
    }
    p.sq[bk] = cell(false, rm::K);
    // rooks on home corners
    for (s, white) in [(56usize, true), (63, true), (0, false), (7, false)] {
        if rng.chance(45) && p.sq[s] == rm::EMPTY {
            p.sq[s] = cell(white, rm::R);
        }
    }
    let men = rng.range(0, 26);
    let pawn_rows = [1, 1, 3, 4, 6, 6, 2, 5];
    for _ in 0..men {
        let white = rng.chance(50);
        let count = p.sq.iter().filter(|&&c| c != 0 && rm::is_color(c, white)).count();
        if count >= 16 {
            continue;
        }
        if rng.chance(45) {
            if let Some(s) = free(&p, rng, &pawn_rows) {
                p.sq[s] = cell(white, rm::P);
            }
        } else {
            let pc = [rm::N, rm::B, rm::R, rm::Q, rm::N, rm::B, rm::R][rng.below(7)];
            if let Some(s) = free(&p, rng, &all_rows) {
                p.sq[s] = cell(white, pc);
            }
        }
    }
    for i in 0..4 {
        p.castling[i] = rng.chance(60);
    }
    // en-passant mark where geometrically possible
    if rng.chance(50) {
        let row = if p.white { 3 } else { 4 };
        let behind = if p.white { 2 } else { 5 };
        let cands: Vec<usize> = (0..8)
            .filter(|&f| p.sq[sq(f, row)] == cell(!p.white, rm::P) && p.sq[sq(f, behind)] == rm::EMPTY)
            .map(|f| sq(f, row))
            .collect();
        if let Some(&e) = rng.pick(&cands) {
            p.ep = Some(e as u8);
        }
    }
    p.clock = rng.below(40) as u16;
    // FEN allows a move number of 0
    p.number = rng.below(80) as u16;
    Some(p)
}

/// S3: two pawns between a king and an enemy slider on the en-passant rank (or on a
/// diagonal through the captured pawn), both colours, all files.
fn enpassant_line(rng: &mut Rng) -> Option<Pos> {
    let mut p = Pos::empty();
    let white = rng.chance(50);
    p.white = white;
    let row = if white { 3 } else { 4 }; // rank of the capturing pawn and the pawn to be captured
    let f_ours = rng.below(8) as i32;
    let f_theirs = if f_ours == 0 {
        1
    } else if f_ours == 7 {
        6
    } else if rng.chance(50) {
        f_ours - 1
    } else {
        f_ours + 1
    };
    p.sq[sq(f_ours, row)] = cell(white, rm::P);
    p.sq[sq(f_theirs, row)] = cell(!white, rm::P);
    p.ep = Some(sq(f_theirs, row) as u8);
    let lo = f_ours.min(f_theirs);
    let hi = f_ours.max(f_theirs);
    let mode = rng.below(4);
    let mut our_king = None;
    if mode <= 1 {
        // rank line: king on one side, rook/queen on the other
        let left: Vec<i32> = (0..lo).collect();
        let right: Vec<i32> = (hi + 1..8).collect();
        if left.is_empty() || right.is_empty() {
            return None;
        }
        let (ks, ss) = if rng.chance(50) { (&left, &right) } else { (&right, &left) };
        let kf = ks[rng.below(ks.len())];
        let sf = ss[rng.below(ss.len())];
        p.sq[sq(kf, row)] = cell(white, rm::K);
        our_king = Some(sq(kf, row));
        p.sq[sq(sf, row)] = cell(!white, if rng.chance(60) { rm::R } else { rm::Q });
    } else if mode == 2 {
        // diagonal through the captured pawn's square
        let (cf, cr) = (f_theirs, row);
        let dirs = [(1, 1), (1, -1), (-1, 1), (-1, -1)];
        let (df, dr) = dirs[rng.below(4)];
        let k_dist = rng.range(1, 3) as i32;
        let k = (cf + df * k_dist, cr + dr * k_dist);
        let s_dist = rng.range(1, 3) as i32;
        let s = (cf - df * s_dist, cr - dr * s_dist);
        let inb = |x: (i32, i32)| (0..8).contains(&x.0) && (0..8).contains(&x.1);
        if !inb(k) || !inb(s) || p.sq[sq(k.0, k.1)] != 0 || p.sq[sq(s.0, s.1)] != 0 {
            return None;
        }
        p.sq[sq(k.0, k.1)] = cell(white, rm::K);
        our_king = Some(sq(k.0, k.1));
        p.sq[sq(s.0, s.1)] = cell(!white, if rng.chance(60) { rm::B } else { rm::Q });
    }
    // remaining kings somewhere free
    let place = |p: &mut Pos, rng: &mut Rng, c: u8| -> bool {
        for _ in 0..30 {
            let s = rng.below(64);
            if p.sq[s] == 0 {
                p.sq[s] = c;
                return true;
            }
        }
        false
    };
    if our_king.is_none() && !place(&mut p, rng, cell(white, rm::K)) {
        return None;
    }
    if !place(&mut p, rng, cell(!white, rm::K)) {
        return None;
    }
    // a few bystanders
    for _ in 0..rng.below(5) {
        let w = rng.chance(50);
        let pc = [rm::N, rm::B, rm::R, rm::P, rm::P][rng.below(5)];
        let s = rng.below(64);
        if p.sq[s] == 0 && !(pc == rm::P && (s < 8 || s >= 56)) {
            p.sq[s] = cell(w, pc);
        }
    }
    p.clock = 0;
    p.number = 1 + rng.below(60) as u16;
    Some(p)
}

/// S5: the side to move has a caged king (corner, enemy queen a knight's move away: no king
/// move, no check) and one pawn whose moves are the only legal moves of the position - an en
/// passant capture, a promotion, a capture-promotion or a first step. Positions in which one
/// special move kind is the *only* move are where an early-exit legal-move probe goes wrong.
fn single_special_move(rng: &mut Rng) -> Option<Pos> {
    let mut p = Pos::empty();
    let white = rng.chance(50);
    p.white = white;
    // corner cage
    let (k, q) = [(63usize, 53usize), (56, 50), (7, 13), (0, 10)][rng.below(4)];
    p.sq[k] = cell(white, rm::K);
    p.sq[q] = cell(!white, rm::Q);
    let d: i32 = if white { -1 } else { 1 }; // row delta of a forward step
    let (r5, r7, r2) = if white { (3, 1, 6) } else { (4, 6, 1) };
    let f = rng.below(8) as i32;
    let put = |p: &mut Pos, f: i32, r: i32, c: u8| -> bool {
        if !(0..8).contains(&f) || !(0..8).contains(&r) {
            return false;
        }
        let s = sq(f, r);
        if p.sq[s] != 0 {
            return false;
        }
        p.sq[s] = c;
        true
    };
    let blocker = cell(!white, [rm::N, rm::B][rng.below(2)]);
    match rng.below(5) {
        0 | 1 => {
            // only an en-passant capture
            let side = if f == 0 { 1 } else if f == 7 { -1 } else if rng.chance(50) { 1 } else { -1 };
            if !put(&mut p, f, r5, cell(white, rm::P)) || !put(&mut p, f + side, r5, cell(!white, rm::P)) {
                return None;
            }
            if !put(&mut p, f, r5 + d, blocker) {
                return None;
            }
            p.ep = Some(sq(f + side, r5) as u8);
        }
        2 => {
            // only a promotion step
            if !put(&mut p, f, r7, cell(white, rm::P)) {
                return None;
            }
        }
        3 => {
            // only a capture-promotion
            let side = if f == 0 { 1 } else if f == 7 { -1 } else if rng.chance(50) { 1 } else { -1 };
            if !put(&mut p, f, r7, cell(white, rm::P)) || !put(&mut p, f, r7 + d, blocker) {
                return None;
            }
            if !put(&mut p, f + side, r7 + d, cell(!white, [rm::N, rm::B, rm::R][rng.below(3)])) {
                return None;
            }
        }
        _ => {
            // only the first step(s) of a pawn
            if !put(&mut p, f, r2, cell(white, rm::P)) {
                return None;
            }
        }
    }
    // the other king, somewhere quiet
    for _ in 0..40 {
        let s = rng.below(64);
        if p.sq[s] != 0 {
            continue;
        }
        p.sq[s] = cell(!white, rm::K);
        if p.plausible() && !p.in_check() {
            let legal = p.legal();
            let pawn = cell(white, rm::P);
            if !legal.is_empty() && legal.iter().all(|m| m.cell == pawn) {
                p.clock = [0u16, 3, 40, 99, 149][rng.below(5)];
                p.number = 1 + rng.below(60) as u16;
                return Some(p);
            }
        }
        p.sq[s] = 0;
    }
    None
}

/// Counter overlays: the `counter-edge` fault.
#[derive(Clone, Copy, Debug, PartialEq, Eq)]
pub enum Overlay {
    None,
    Clock50,
    Clock75,
    ClockMax,
    NumberMax,
    BothMax,
    /// move numbers around digit-count and integer-width boundaries (for numbering)
    NumberMid,
}

impl Overlay {
    pub fn name(&self) -> &'static str {
        match self {
            Overlay::None => "none",
            Overlay::Clock50 => "clock-95..100",
            Overlay::Clock75 => "clock-145..150",
            Overlay::ClockMax => "clock-65533..65535",
            Overlay::NumberMax => "number-65534..65535",
            Overlay::BothMax => "both-counters-max",
            Overlay::NumberMid => "number-99..32768",
        }
    }
}

pub fn apply_overlay(b: &Board, ov: Overlay, rng: &mut Rng) -> Board {
    let mut p = pos_of(b);
    match ov {
        Overlay::None => return b.clone(),
        Overlay::Clock50 => p.clock = 95 + rng.below(6) as u16,
        Overlay::Clock75 => p.clock = 145 + rng.below(6) as u16,
        Overlay::ClockMax => p.clock = 65533 + rng.below(3) as u16,
        Overlay::NumberMax => p.number = 65534 + rng.below(2) as u16,
        Overlay::BothMax => {
            p.clock = 65533 + rng.below(3) as u16;
            p.number = 65534 + rng.below(2) as u16;
        }
        Overlay::NumberMid => {
            p.number = [0u16, 9, 99, 127, 128, 255, 256, 999, 1000, 9999, 32767, 32768][rng.below(12)];
        }
    }
    admit(&p).unwrap_or_else(|| b.clone())
}

pub struct StartChoice {
    pub board: Board,
    pub family: Family,
    pub rejected: u32,
}

/// Weighted choice of a family, then a position of it. `quiet_bias` (percent) swaps in
/// a quiet mating-material position (used with the clock overlays).
pub fn choose(rng: &mut Rng, weights: &[u32; 6], quiet_bias: u32) -> StartChoice {
    let fam = [Family::S0, Family::S1, Family::S2, Family::S3, Family::S4, Family::S5][rng.weighted(weights)];
    let mut rejected = 0;
    if rng.chance(quiet_bias) {
        return StartChoice { board: quiet(rng), family: Family::S1, rejected };
    }
    let base = |rng: &mut Rng, fam: Family, rejected: &mut u32| -> Board {
        match fam {
            Family::S0 => initial(),
            Family::S1 => corpus(rng),
            Family::S2 => {
                for _ in 0..30 {
                    if let Some(p) = random_placement(rng) {
                        if p.plausible() {
                            if let Some(b) = admit(&p) {
                                return b;
                            }
                        }
                    }
                    *rejected += 1;
                }
                corpus(rng)
            }
            Family::S3 => {
                for _ in 0..40 {
                    if let Some(p) = enpassant_line(rng) {
                        if p.plausible() {
                            if let Some(b) = admit(&p) {
                                return b;
                            }
                        }
                    }
                    *rejected += 1;
                }
                corpus(rng)
            }
            Family::S5 => {
                for _ in 0..60 {
                    if let Some(p) = single_special_move(rng) {
                        if p.plausible() {
                            if let Some(b) = admit(&p) {
                                return b;
                            }
                        }
                    }
                    *rejected += 1;
                }
                corpus(rng)
            }
            Family::S4 => unreachable!(),
        }
    };
    let board = if fam == Family::S4 {
        let inner = [Family::S0, Family::S1, Family::S2, Family::S3][rng.below(4)];
        let mut b = base(rng, inner, &mut rejected);
        let plies = rng.below(61);
        for _ in 0..plies {
            let pos = pos_of(&b);
            let legal = pos.legal();
            let m = match rng.pick(&legal) {
                Some(m) => *m,
                None => break,
            };
            let mv = match crate::full::move_of(&m) {
                Some(mv) => mv,
                None => break,
            };
            b = match b.make_move(mv) {
                Ok(n) => n,
                Err(_) => break,
            };
        }
        b
    } else {
        base(rng, fam, &mut rejected)
    };
    StartChoice { board, family: fam, rejected }
}
