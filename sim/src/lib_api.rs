//! Thin adapters from the simulator's concrete operation arguments to calls of the
//! real owlchess API. Nothing here judges anything.

use crate::full::{move_of, promote_of};
use crate::ops::{MoveLike, OutcomeSpec, SanData};
use crate::refmodel as rm;
use owlchess::chain::{BaseMoveChain, Repeat};
use owlchess::moves::{make, san, uci, Make, RawUndo};
use owlchess::types::{DrawReason, OutcomeFilter, WinReason};
use owlchess::{Board, CastlingSide, Color, Coord, File, Move, Outcome, Piece, Rank};

pub const WIN_REASONS: [WinReason; 7] = [
    WinReason::Checkmate,
    WinReason::TimeForfeit,
    WinReason::InvalidMove,
    WinReason::EngineError,
    WinReason::Resign,
    WinReason::Abandon,
    WinReason::Unknown,
];

pub const DRAW_REASONS: [DrawReason; 8] = [
    DrawReason::Stalemate,
    DrawReason::InsufficientMaterial,
    DrawReason::Moves75,
    DrawReason::Repeat5,
    DrawReason::Moves50,
    DrawReason::Repeat3,
    DrawReason::Agreement,
    DrawReason::Unknown,
];

pub const FILTERS: [OutcomeFilter; 3] = [
    OutcomeFilter::Force,
    OutcomeFilter::Strict,
    OutcomeFilter::Relaxed,
];

pub fn outcome_of(o: &OutcomeSpec) -> Outcome {
    match *o {
        OutcomeSpec::Win(white, r) => Outcome::Win {
            side: if white { Color::White } else { Color::Black },
            reason: WIN_REASONS[(r as usize) % WIN_REASONS.len()],
        },
        OutcomeSpec::Draw(r) => Outcome::Draw(DRAW_REASONS[(r as usize) % DRAW_REASONS.len()]),
    }
}

fn coord(i: u8) -> Option<Coord> {
    if i < 64 {
        Some(Coord::from_index(i as usize))
    } else {
        None
    }
}

fn file(i: u8) -> Option<File> {
    if i < 8 {
        Some(File::from_index(i as usize))
    } else {
        None
    }
}

fn piece(p: u8) -> Option<Piece> {
    if p < 6 {
        Some(Piece::from_index(p as usize))
    } else {
        None
    }
}

pub fn uci_move(src: u8, dst: u8, promo: Option<u8>) -> Option<uci::Move> {
    if promo.is_some() && promote_of(promo).is_none() {
        return None;
    }
    Some(uci::Move::Move {
        src: coord(src)?,
        dst: coord(dst)?,
        promote: promote_of(promo),
    })
}

pub fn san_data(d: &SanData) -> Option<san::Data> {
    let pr = |p: &Option<u8>| -> Option<Option<owlchess::moves::PromotePiece>> {
        match p {
            None => Some(None),
            Some(_) => promote_of(*p).map(Some),
        }
    };
    Some(match d {
        SanData::Uci { src, dst, promo } => san::Data::Uci(uci_move(*src, *dst, *promo)?),
        SanData::UciNull => san::Data::Uci(uci::Move::Null),
        SanData::Castling { king_side } => san::Data::Castling(if *king_side {
            CastlingSide::King
        } else {
            CastlingSide::Queen
        }),
        SanData::PawnMove { dst, promo } => san::Data::PawnMove {
            dst: coord(*dst)?,
            promote: pr(promo)?,
        },
        SanData::PawnCapture { src_file, dst, promo } => san::Data::PawnCapture {
            src: file(*src_file)?,
            dst: coord(*dst)?,
            promote: pr(promo)?,
        },
        SanData::PawnCaptureShort { src_file, dst_file, promo } => san::Data::PawnCaptureShort {
            src: file(*src_file)?,
            dst: file(*dst_file)?,
            promote: pr(promo)?,
        },
        SanData::Simple { piece: p, file: f, rank, capture, dst } => {
            // `Data::Simple` with a pawn is documented (by its panic messages) as an
            // invalid value of the type; the simulator never builds one.
            if *p == rm::P {
                return None;
            }
            san::Data::Simple {
                piece: piece(*p)?,
                file: match f {
                    Some(x) => Some(file(*x)?),
                    None => None,
                },
                rank: match rank {
                    Some(x) if *x < 8 => Some(Rank::from_index(*x as usize)),
                    Some(_) => return None,
                    None => None,
                },
                is_capture: *capture,
                dst: coord(*dst)?,
            }
        }
    })
}

pub fn san_move(d: &SanData, check: u8) -> Option<san::Move> {
    Some(san::Move {
        data: san_data(d)?,
        check: match check {
            1 => Some(san::CheckMark::Single),
            2 => Some(san::CheckMark::Double),
            3 => Some(san::CheckMark::Checkmate),
            _ => None,
        },
    })
}

/// Contract of the unsafe `Make` wrappers, checked against the board the value is applied
/// to: `Unchecked` only for a move that is legal there (model and `Move::validate`),
/// `TryUnchecked` only for a move that is semilegal there (model and library generator).
pub fn unsafe_like_ok(info: &crate::world::Info, board: &Board, ml: &MoveLike) -> bool {
    match ml {
        MoveLike::Unchecked(r) => {
            info.legal.contains(r) && move_of(r).map_or(false, |mv| mv.validate(board).is_ok())
        }
        // the null move is always within TryUnchecked's contract ("semilegal or null": refused if
        // and only if the mover is in check)
        MoveLike::TryUnchecked(r) if r.kind == rm::K_NULL => true,
        MoveLike::TryUnchecked(r) => {
            info.pseudo.contains(r)
                && move_of(r).map_or(false, |mv| owlchess::movegen::semilegal::gen_all(board).contains(&mv))
        }
        _ => true,
    }
}

/// `chain.push(x)`. `None`: the argument cannot be constructed through the safe API
/// (the operation is inapplicable and nothing was called).
pub fn push_like<R: Repeat>(c: &mut BaseMoveChain<R>, ml: &MoveLike) -> Option<Result<(), String>> {
    Some(match ml {
        MoveLike::Move(r) => c.push(move_of(r)?).map_err(|e| e.to_string()),
        MoveLike::UciMove { src, dst, promo } => {
            c.push(uci_move(*src, *dst, *promo)?).map_err(|e| e.to_string())
        }
        MoveLike::UciNull => c.push(uci::Move::Null).map_err(|e| e.to_string()),
        MoveLike::SanMove { data, check } => {
            c.push(san_move(data, *check)?).map_err(|e| e.to_string())
        }
        MoveLike::UciStr(s) => c.push(make::Uci(s.as_str())).map_err(|e| e.to_string()),
        MoveLike::SanStr(s) => c.push(make::San(s.as_str())).map_err(|e| e.to_string()),
        // the caller has established the contract of the unsafe constructors (see `unsafe_like_ok`)
        MoveLike::Unchecked(r) => c.push(unsafe { make::Unchecked::new(move_of(r)?) }).map_err(|e| e.to_string()),
        MoveLike::TryUnchecked(r) => c.push(unsafe { make::TryUnchecked::new(move_of(r)?) }).map_err(|e| e.to_string()),
    })
}

/// `x.make_raw(&mut board)`.
pub fn make_raw_like(b: &mut Board, ml: &MoveLike) -> Option<Result<(Move, RawUndo), String>> {
    Some(match ml {
        MoveLike::Move(r) => move_of(r)?.make_raw(b).map_err(|e| e.to_string()),
        MoveLike::UciMove { src, dst, promo } => {
            uci_move(*src, *dst, *promo)?.make_raw(b).map_err(|e| e.to_string())
        }
        MoveLike::UciNull => uci::Move::Null.make_raw(b).map_err(|e| e.to_string()),
        MoveLike::SanMove { data, check } => {
            san_move(data, *check)?.make_raw(b).map_err(|e| e.to_string())
        }
        MoveLike::UciStr(s) => make::Uci(s.as_str()).make_raw(b).map_err(|e| e.to_string()),
        MoveLike::SanStr(s) => make::San(s.as_str()).make_raw(b).map_err(|e| e.to_string()),
        MoveLike::Unchecked(r) => unsafe { make::Unchecked::new(move_of(r)?) }.make_raw(b).map_err(|e| e.to_string()),
        MoveLike::TryUnchecked(r) => unsafe { make::TryUnchecked::new(move_of(r)?) }.make_raw(b).map_err(|e| e.to_string()),
    })
}

/// `board.make_move(x)` (the functional path).
pub fn make_like(b: &Board, ml: &MoveLike) -> Option<Result<Board, String>> {
    Some(match ml {
        MoveLike::Move(r) => b.make_move(move_of(r)?).map_err(|e| e.to_string()),
        MoveLike::UciMove { src, dst, promo } => {
            b.make_move(uci_move(*src, *dst, *promo)?).map_err(|e| e.to_string())
        }
        MoveLike::UciNull => b.make_move(uci::Move::Null).map_err(|e| e.to_string()),
        MoveLike::SanMove { data, check } => {
            b.make_move(san_move(data, *check)?).map_err(|e| e.to_string())
        }
        MoveLike::UciStr(s) => b.make_move(make::Uci(s.as_str())).map_err(|e| e.to_string()),
        MoveLike::SanStr(s) => b.make_move(make::San(s.as_str())).map_err(|e| e.to_string()),
        MoveLike::Unchecked(r) => b.make_move(unsafe { make::Unchecked::new(move_of(r)?) }).map_err(|e| e.to_string()),
        MoveLike::TryUnchecked(r) => b.make_move(unsafe { make::TryUnchecked::new(move_of(r)?) }).map_err(|e| e.to_string()),
    })
}

/// Re-pushes a recorded move into a chain: through the safe `push` for a real move, through the
/// unsafe-built `Unchecked` wrapper for the null move (which the safe route refuses by design).
/// The caller guarantees the null move is within its contract (mover not in check).
pub fn repush<R: Repeat>(c: &mut BaseMoveChain<R>, m: Move) -> Result<(), String> {
    if m == Move::NULL {
        if c.last().is_check() {
            return Err("null move while in check".into());
        }
        c.push(unsafe { make::Unchecked::new(m) }).map_err(|e| e.to_string())
    } else {
        c.push(m).map_err(|e| e.to_string())
    }
}

/// Functional application of a recorded move (null move through `Unchecked`).
pub fn reapply(b: &Board, m: Move) -> Result<Board, String> {
    if m == Move::NULL {
        if b.is_check() {
            return Err("null move while in check".into());
        }
        b.make_move(unsafe { make::Unchecked::new(m) }).map_err(|e| e.to_string())
    } else {
        b.make_move(m).map_err(|e| e.to_string())
    }
}
