//! One simulated run (a pure function of its seed and the code), replay of a
//! concrete trace, and delta-debugging minimisation.

use crate::full::pos_of;
use crate::gen::{Gen, Swarm};
use crate::ops::{Op, ReadPhase};
use crate::refmodel::Pos;
use crate::rng::{Fnv, Rng};
use crate::starts::{self, admit};
use crate::world::*;
use std::cell::RefCell;
use std::panic::{self, AssertUnwindSafe};

/// Operation journal for crash triage: when set (only by `owlsim one`), the start position
/// and every operation are written - unbuffered - *before* they are executed, so that the
/// trace survives the death of the process.
pub static OPLOG: std::sync::Mutex<Option<std::fs::File>> = std::sync::Mutex::new(None);

fn oplog(line: &str) {
    use std::io::Write;
    if let Ok(mut g) = OPLOG.lock() {
        if let Some(f) = g.as_mut() {
            let _ = f.write_all(format!("{}\n", line).as_bytes());
        }
    }
}

thread_local! {
    /// (location, message) of the last panic on this thread, filled by the hook.
    static LAST_PANIC: RefCell<Option<(String, String)>> = RefCell::new(None);
}

/// Installs a silent panic hook that records where a panic came from. Panics that
/// originate in the harness's own sources are harness errors, never violations.
pub fn install_panic_hook() {
    panic::set_hook(Box::new(|info| {
        let loc = info
            .location()
            .map(|l| format!("{}:{}", l.file(), l.line()))
            .unwrap_or_else(|| "<unknown>".into());
        let msg = if let Some(s) = info.payload().downcast_ref::<&str>() {
            s.to_string()
        } else if let Some(s) = info.payload().downcast_ref::<String>() {
            s.clone()
        } else {
            "<non-string panic payload>".into()
        };
        LAST_PANIC.with(|p| *p.borrow_mut() = Some((loc, msg)));
    }));
}

fn take_panic() -> (String, String) {
    LAST_PANIC
        .with(|p| p.borrow_mut().take())
        .unwrap_or_else(|| ("<unknown>".into(), "<no message>".into()))
}

/// A panic whose location is inside the simulator's own crate (relative `src/` path)
/// is a harness bug.
fn is_harness_location(loc: &str) -> bool {
    loc.starts_with("src/") || loc.contains("/verif/sim/src/")
}

#[derive(Debug)]
pub struct HarnessError(pub String);

pub struct RunOutput {
    pub violation: Option<Violation>,
    pub steps: usize,
    pub skipped: usize,
    pub digest: u64,
    pub stats: Stats,
    pub pos_digests: Vec<u64>,
    pub aborted: bool,
}

/// Executes one operation under `catch_unwind`. Returns Err(harness error) only for
/// panics raised by the harness itself.
fn exec_guarded(w: &mut World, op: &Op) -> Result<R, HarnessError> {
    let r = panic::catch_unwind(AssertUnwindSafe(|| w.exec(op)));
    match r {
        Ok(r) => Ok(r),
        Err(_) => {
            let (loc, msg) = take_panic();
            if is_harness_location(&loc) {
                return Err(HarnessError(format!("harness panic at {}: {} (during {})", loc, msg, op.encode())));
            }
            // a panic while an oracle of property P was being evaluated (e.g. calc_outcome inside
            // the C14 invariant) belongs to P, whatever operation preceded the check
            if w.judging != 0 {
                let p = w.judging;
                w.judging = 0;
                if w.on(p) {
                    return Ok(Err(w.fail(
                        p,
                        "panic",
                        format!("observing the chain after {} panicked at {}: {}", op.pretty(), loc, msg),
                    )));
                }
                w.stats.hit("note.run-aborted-by-out-of-scope-panic");
                w.props = 0;
                return Ok(Ok(Exec::Skipped));
            }
            for p in World::panic_props(op, &loc) {
                if w.on(*p) {
                    return Ok(Err(w.fail(
                        *p,
                        "panic",
                        format!("{} panicked at {}: {}", op.pretty(), loc, msg),
                    )));
                }
            }
            // outside the scope of the property being judged: stop the run quietly
            w.stats.hit("note.run-aborted-by-out-of-scope-panic");
            w.props = 0;
            Ok(Ok(Exec::Skipped))
        }
    }
}

fn fold_digest(d: &mut Fnv, w: &World, op: &Op, r: &R) {
    d.str(&op.encode());
    match r {
        Ok(Exec::Done) => d.byte(1),
        Ok(Exec::Skipped) => d.byte(2),
        Err(v) => {
            d.byte(3);
            d.str(v.class);
            d.str(&v.msg);
        }
    }
    d.u64(w.chain.len() as u64);
    d.u64(w.chain.last().zobrist_hash());
    d.byte(w.chain.outcome().is_some() as u8);
    d.u64(w.searchers.len() as u64);
}

pub struct Generated {
    pub start_fen: String,
    pub trace: Vec<Op>,
    pub out: RunOutput,
    pub swarm: String,
    pub family: &'static str,
    pub overlay: &'static str,
}

/// Generates and executes run `seed_i` for property `prop`.
/// Runs `f` on a fresh OS thread, so that thread-local state kept by the code under test
/// (memo tables, scratch buffers) cannot leak from one simulated run into the next: a run
/// stays a pure function of its seed and the code, and a replay in a fresh process sees the
/// same thread-local history.
fn hermetic<T: Send>(f: impl FnOnce() -> Result<T, HarnessError> + Send) -> Result<T, HarnessError> {
    std::thread::scope(|s| {
        let h = s.spawn(move || match panic::catch_unwind(AssertUnwindSafe(f)) {
            Ok(r) => r,
            Err(_) => {
                let (loc, msg) = take_panic();
                Err(HarnessError(format!("run thread panicked outside any guarded call at {}: {}", loc, msg)))
            }
        });
        match h.join() {
            Ok(r) => r,
            Err(_) => Err(HarnessError("run thread died".into())),
        }
    })
}

pub fn generate(seed_i: u64, prop: u32, step_scale: usize) -> Result<Generated, HarnessError> {
    hermetic(move || generate_inner(seed_i, prop, step_scale))
}

fn generate_inner(seed_i: u64, prop: u32, step_scale: usize) -> Result<Generated, HarnessError> {
    let mut rng = Rng::new(seed_i);
    let sw = Swarm::draw(&mut rng, prop);
    // Start positions are built with library calls (the gate, playouts). Should one of them panic
    // on a changed tree, that is nobody's property here: the run starts from the initial position.
    let built = panic::catch_unwind(AssertUnwindSafe(|| {
        let mut r2 = rng.clone();
        let choice = starts::choose(&mut r2, &sw.start_w, sw.quiet_start);
        let overlaid = starts::apply_overlay(&choice.board, sw.overlay, &mut r2);
        (choice, overlaid, r2)
    }));
    let (choice, overlaid) = match built {
        Ok((c, o, r2)) => {
            rng = r2;
            (c, o)
        }
        Err(_) => {
            let _ = take_panic();
            let b = match panic::catch_unwind(starts::initial) {
                Ok(b) => b,
                Err(_) => {
                    let (loc, msg) = take_panic();
                    return Err(HarnessError(format!("even the initial position cannot be built: panic at {}: {}", loc, msg)));
                }
            };
            (starts::StartChoice { board: b.clone(), family: starts::Family::S0, rejected: 0 }, b)
        }
    };
    // canonical start: rebuilt from scratch from the harness's own FEN, exactly as a replay will
    let start_fen = pos_of(&overlaid).to_fen();
    let start = Pos::from_fen(&start_fen)
        .and_then(|p| admit(&p))
        .ok_or_else(|| HarnessError(format!("start position {} not admitted", start_fen)))?;
    let start_fen = pos_of(&start).to_fen();
    oplog(&format!("start {}", start_fen));
    let swarm_desc = sw.describe();
    let steps = (sw.steps * step_scale / 100).max(8);
    let family = choice.family.name();
    let overlay = sw.overlay.name();
    let mut gen = Gen::new(sw, rng);
    let mut w = World::new(start, prop);
    w.stats.hit(match family {
        "S0-initial" => "start.S0-initial",
        "S1-corpus" => "start.S1-corpus",
        "S2-random-placement" => "start.S2-random-placement",
        "S3-enpassant-line" => "start.S3-enpassant-line",
        "S5-single-special-move" => "start.S5-single-special-move",
        _ => "start.S4-playout",
    });
    if overlay != "none" {
        w.stats.hit("fault.counter-edge");
    }
    w.stats.add("start.rejected-by-gate", choice.rejected as u64);
    let mut d = Fnv::default();
    d.str(&start_fen);
    let mut trace = Vec::with_capacity(steps);
    let mut skipped = 0;
    let mut violation = None;
    let mut aborted = false;
    match panic::catch_unwind(AssertUnwindSafe(|| w.check_start())) {
        Ok(Ok(())) => {}
        Ok(Err(v)) => violation = Some(v),
        Err(_) => {
            let (loc, msg) = take_panic();
            return Err(HarnessError(format!("panic while checking the start position at {}: {}", loc, msg)));
        }
    }
    if violation.is_none() {
        for step in 1..=steps {
            w.step = step;
            let op = match panic::catch_unwind(AssertUnwindSafe(|| gen.next_op(&mut w, prop))) {
                Ok(op) => op,
                Err(_) => {
                    let (loc, msg) = take_panic();
                    return Err(HarnessError(format!("generator panic at {}: {}", loc, msg)));
                }
            };
            oplog(&op.encode());
            let r = exec_guarded(&mut w, &op)?;
            fold_digest(&mut d, &w, &op, &r);
            trace.push(op.clone());
            match r {
                Ok(Exec::Done) => gen.observe(&op, &w),
                Ok(Exec::Skipped) => skipped += 1,
                Err(v) => {
                    violation = Some(v);
                    break;
                }
            }
            if w.props == 0 || w.poisoned {
                aborted = true;
                break;
            }
        }
    }
    if violation.is_none() && !aborted {
        w.step = trace.len() + 1;
        match panic::catch_unwind(AssertUnwindSafe(|| w.finish())) {
            Ok(Ok(())) => {}
            Ok(Err(v)) => violation = Some(v),
            Err(_) => {
                let (loc, msg) = take_panic();
                if is_harness_location(&loc) {
                    return Err(HarnessError(format!("harness panic in finish at {}: {}", loc, msg)));
                }
                if w.on(C04) {
                    violation = Some(w.fail(C04, "panic", format!("un-making at the end of the run panicked at {}: {}", loc, msg)));
                }
            }
        }
    }
    let steps_done = trace.len();
    Ok(Generated {
        start_fen,
        trace,
        out: RunOutput {
            violation,
            steps: steps_done,
            skipped,
            digest: d.0,
            stats: std::mem::take(&mut w.stats),
            pos_digests: std::mem::take(&mut w.pos_digests),
            aborted,
        },
        swarm: swarm_desc,
        family,
        overlay,
    })
}

/// Re-executes a concrete trace from a start position. Oracles are recomputed from
/// scratch; nothing the generator "expected" is used.
pub fn replay(start_fen: &str, trace: &[Op], prop: u32) -> Result<RunOutput, HarnessError> {
    hermetic(move || replay_inner(start_fen, trace, prop))
}

fn replay_inner(start_fen: &str, trace: &[Op], prop: u32) -> Result<RunOutput, HarnessError> {
    let start = Pos::from_fen(start_fen)
        .and_then(|p| admit(&p))
        .ok_or_else(|| HarnessError(format!("start position {} not admitted", start_fen)))?;
    let mut w = World::new(start, prop);
    let mut d = Fnv::default();
    d.str(&pos_of(w.chain.last()).to_fen());
    let mut skipped = 0;
    let mut violation = None;
    let mut aborted = false;
    match panic::catch_unwind(AssertUnwindSafe(|| w.check_start())) {
        Ok(Ok(())) => {}
        Ok(Err(v)) => violation = Some(v),
        Err(_) => {
            let (loc, msg) = take_panic();
            return Err(HarnessError(format!("panic while checking the start position at {}: {}", loc, msg)));
        }
    }
    let mut done = 0;
    if violation.is_none() {
        for (i, op) in trace.iter().enumerate() {
            w.step = i + 1;
            let r = exec_guarded(&mut w, op)?;
            fold_digest(&mut d, &w, op, &r);
            done += 1;
            match r {
                Ok(Exec::Done) => {}
                Ok(Exec::Skipped) => skipped += 1,
                Err(v) => {
                    violation = Some(v);
                    break;
                }
            }
            if w.props == 0 || w.poisoned {
                aborted = true;
                break;
            }
        }
    }
    if violation.is_none() && !aborted {
        w.step = trace.len() + 1;
        match panic::catch_unwind(AssertUnwindSafe(|| w.finish())) {
            Ok(Ok(())) => {}
            Ok(Err(v)) => violation = Some(v),
            Err(_) => {
                let (loc, msg) = take_panic();
                if is_harness_location(&loc) {
                    return Err(HarnessError(format!("harness panic in finish at {}: {}", loc, msg)));
                }
                if w.on(C04) {
                    violation = Some(w.fail(C04, "panic", format!("un-making at the end of the run panicked at {}: {}", loc, msg)));
                }
            }
        }
    }
    Ok(RunOutput {
        violation,
        steps: done,
        skipped,
        digest: d.0,
        stats: std::mem::take(&mut w.stats),
        pos_digests: std::mem::take(&mut w.pos_digests),
        aborted,
    })
}

/// The chain's position (as a start FEN) after executing `ops` with all oracles off;
/// `None` if the prefix cannot be executed to its end.
fn position_after(start_fen: &str, ops: &[Op]) -> Result<Option<String>, HarnessError> {
    hermetic(move || position_after_inner(start_fen, ops))
}

fn position_after_inner(start_fen: &str, ops: &[Op]) -> Result<Option<String>, HarnessError> {
    let start = match Pos::from_fen(start_fen).and_then(|p| admit(&p)) {
        Some(b) => b,
        None => return Ok(None),
    };
    let mut w = World::new(start, 0);
    for (i, op) in ops.iter().enumerate() {
        w.step = i + 1;
        match exec_guarded(&mut w, op)? {
            Ok(_) => {}
            Err(_) => return Ok(None),
        }
        if w.poisoned {
            return Ok(None);
        }
    }
    Ok(Some(pos_of(w.chain.last()).to_fen()))
}

/// Minimises a failing run: delta debugging of the trace, then an attempt to restart the
/// history from a *later* position (the position reached just before a short suffix of the
/// trace) when the violation does not depend on how that position was reached, then delta
/// debugging again. Returns the (possibly new) start and the trace.
pub fn minimize(start_fen: &str, trace: &[Op], prop: u32, v: &Violation) -> Result<(String, Vec<Op>), HarnessError> {
    let mut start = start_fen.to_string();
    let mut cur = minimize_trace(&start, trace, prop, v)?;
    let mut tries = 0;
    let mut cut = cur.len();
    while cut > 1 && tries < 40 {
        cut -= 1;
        // only cut in front of an owner operation that is left in the suffix
        tries += 1;
        let fen = match position_after(&start, &cur[..cut])? {
            Some(f) => f,
            None => continue,
        };
        if fen == start || Pos::from_fen(&fen).and_then(|p| admit(&p)).is_none() {
            // (a position the gate of the tree under test does not admit is simply not a candidate)
            continue;
        }
        let suffix = cur[cut..].to_vec();
        if same_class(&replay(&fen, &suffix, prop)?.violation, v.prop, v.class) {
            start = fen;
            let mut v2 = v.clone();
            v2.step = suffix.len();
            cur = minimize_trace(&start, &suffix, prop, &v2)?;
            break;
        }
    }
    Ok((start, cur))
}

fn same_class(v: &Option<Violation>, prop: &str, class: &str) -> bool {
    matches!(v, Some(x) if x.prop == prop && x.class == class)
}

fn ddmin(
    cur: &mut Vec<Op>,
    fails: &dyn Fn(&[Op]) -> Result<bool, HarnessError>,
    budget: &mut usize,
) -> Result<(), HarnessError> {
    let mut chunk = (cur.len() / 2).max(1);
    loop {
        let mut i = 0;
        let mut progressed = false;
        while i < cur.len() && *budget > 0 {
            let end = (i + chunk).min(cur.len());
            let mut cand = cur[..i].to_vec();
            cand.extend_from_slice(&cur[end..]);
            *budget -= 1;
            if fails(&cand)? {
                *cur = cand;
                progressed = true;
            } else {
                i = end;
            }
        }
        if *budget == 0 {
            break;
        }
        if chunk == 1 {
            if !progressed {
                break;
            }
        } else {
            chunk /= 2;
        }
    }
    Ok(())
}

/// Delta debugging over the concrete trace: drop chunks, then single operations,
/// then shrink the inside of read phases and move lists, keeping a candidate only if
/// it still fails with the same property and violation class.
fn minimize_trace(start_fen: &str, trace: &[Op], prop: u32, v: &Violation) -> Result<Vec<Op>, HarnessError> {
    let fails = |t: &[Op]| -> Result<bool, HarnessError> {
        Ok(same_class(&replay(start_fen, t, prop)?.violation, v.prop, v.class))
    };
    // everything after the failing step is irrelevant
    let mut cur: Vec<Op> = trace[..v.step.min(trace.len())].to_vec();
    if !fails(&cur)? {
        cur = trace.to_vec();
        if !fails(&cur)? {
            return Ok(trace.to_vec());
        }
    }
    let mut budget = 6000usize;
    ddmin(&mut cur, &fails, &mut budget)?;

    // (a) split move lists into single pushes, so that deletion can work inside them
    let mut i = 0;
    while i < cur.len() && budget > 0 {
        if let Op::PushUciList(text) = &cur[i] {
            let toks: Vec<String> = text.split_ascii_whitespace().map(|s| s.to_string()).collect();
            if toks.len() >= 2 {
                let mut cand = cur[..i].to_vec();
                for t in &toks {
                    cand.push(Op::Push(crate::ops::MoveLike::UciStr(t.clone())));
                }
                cand.extend_from_slice(&cur[i + 1..]);
                budget -= 1;
                if fails(&cand)? {
                    cur = cand;
                    i += toks.len();
                    continue;
                }
            }
        }
        i += 1;
    }
    // (b) prefer simpler operations
    for i in 0..cur.len() {
        if budget == 0 {
            break;
        }
        let simpler = match &cur[i] {
            Op::SetAuto(_) => Some(Op::SetOutcome(crate::ops::OutcomeSpec::Draw(6))),
            Op::ResetOutcome(Some(_)) => Some(Op::SetOutcome(crate::ops::OutcomeSpec::Draw(6))),
            _ => None,
        };
        if let Some(op) = simpler {
            let mut cand = cur.clone();
            cand[i] = op;
            budget -= 1;
            if fails(&cand)? {
                cur = cand;
            }
        }
    }
    // (c) drop a push together with a later pop
    let mut progressed = true;
    while progressed && budget > 0 {
        progressed = false;
        'outer: for j in 0..cur.len() {
            if cur[j] != Op::Pop {
                continue;
            }
            for i in (0..j).rev() {
                if !matches!(cur[i], Op::Push(_) | Op::PushUnchecked(_) | Op::PushUciList(_)) {
                    continue;
                }
                if budget == 0 {
                    break 'outer;
                }
                let mut cand = cur.clone();
                cand.remove(j);
                cand.remove(i);
                budget -= 1;
                if fails(&cand)? {
                    cur = cand;
                    progressed = true;
                    break 'outer;
                }
                if j - i > 6 {
                    break;
                }
            }
        }
    }
    ddmin(&mut cur, &fails, &mut budget)?;

    // shrink inside compound operations
    let mut i = 0;
    while i < cur.len() && budget > 0 {
        match cur[i].clone() {
            Op::Read(r) => {
                let mut best = r.clone();
                // prints
                let mut j = 0;
                while j < best.prints.len() && budget > 0 {
                    let mut c = best.clone();
                    c.prints.remove(j);
                    let mut cand = cur.clone();
                    cand[i] = Op::Read(c.clone());
                    budget -= 1;
                    if fails(&cand)? {
                        best = c;
                    } else {
                        j += 1;
                    }
                }
                // script, chunked
                let mut ch = (best.script.len() / 2).max(1);
                loop {
                    let mut j = 0;
                    while j < best.script.len() && budget > 0 {
                        let end = (j + ch).min(best.script.len());
                        let mut c: ReadPhase = best.clone();
                        c.script.drain(j..end);
                        let mut cand = cur.clone();
                        cand[i] = Op::Read(c.clone());
                        budget -= 1;
                        if fails(&cand)? {
                            best = c;
                        } else {
                            j = end;
                        }
                    }
                    if ch == 1 || budget == 0 {
                        break;
                    }
                    ch /= 2;
                }
                cur[i] = Op::Read(best);
            }
            Op::PushUciList(text) => {
                let mut toks: Vec<String> = text.split_ascii_whitespace().map(|s| s.to_string()).collect();
                let mut j = toks.len();
                while j > 0 && budget > 0 {
                    j -= 1;
                    let mut c = toks.clone();
                    c.remove(j);
                    let mut cand = cur.clone();
                    cand[i] = Op::PushUciList(c.join(" "));
                    budget -= 1;
                    if fails(&cand)? {
                        toks = c;
                    }
                }
                let mut cand = cur.clone();
                cand[i] = Op::PushUciList(toks.join(" "));
                budget = budget.saturating_sub(1);
                if fails(&cand)? {
                    cur = cand;
                }
            }
            _ => {}
        }
        i += 1;
    }
    Ok(cur)
}
