//! Small executable reference model of the rules of chess.
//!
//! Mailbox 8x8, ray walking, no bitboards, no code shared with /repo. It is used
//! *statelessly*: the simulator always evaluates it on the library's current raw
//! position and never advances a run by the model's own `make` (that one exists
//! for the legality filter by copy-make-test and for the perft self-test).
//!
//! Square indexing follows the library's public convention (`Coord::index()`):
//! index = row * 8 + file, row 0 = rank 8, file 0 = a-file. Cell codes follow
//! `Cell::index()`: 0 empty, 1..=6 white P K N B R Q, 7..=12 black P K N B R Q.

pub const EMPTY: u8 = 0;
pub const P: u8 = 0;
pub const K: u8 = 1;
pub const N: u8 = 2;
pub const B: u8 = 3;
pub const R: u8 = 4;
pub const Q: u8 = 5;

// Move kinds, numbered like `MoveKind`.
pub const K_NULL: u8 = 0;
pub const K_SIMPLE: u8 = 1;
pub const K_CASTLE_K: u8 = 2;
pub const K_CASTLE_Q: u8 = 3;
pub const K_DOUBLE: u8 = 4;
pub const K_EP: u8 = 5;
pub const K_PROMO_N: u8 = 6;
pub const K_PROMO_B: u8 = 7;
pub const K_PROMO_R: u8 = 8;
pub const K_PROMO_Q: u8 = 9;

#[inline]
pub fn cell(white: bool, piece: u8) -> u8 {
    if white {
        1 + piece
    } else {
        7 + piece
    }
}
#[inline]
pub fn is_white(c: u8) -> bool {
    (1..=6).contains(&c)
}
#[inline]
pub fn is_black(c: u8) -> bool {
    (7..=12).contains(&c)
}
#[inline]
pub fn is_color(c: u8, white: bool) -> bool {
    if white {
        is_white(c)
    } else {
        is_black(c)
    }
}
#[inline]
pub fn piece_of(c: u8) -> u8 {
    debug_assert!(c != 0);
    (c - 1) % 6
}
#[inline]
pub fn sq(file: i32, row: i32) -> usize {
    (row * 8 + file) as usize
}
#[inline]
pub fn file_of(s: usize) -> i32 {
    (s % 8) as i32
}
#[inline]
pub fn row_of(s: usize) -> i32 {
    (s / 8) as i32
}
#[inline]
fn on_board(f: i32, r: i32) -> bool {
    (0..8).contains(&f) && (0..8).contains(&r)
}

pub fn sq_name(s: usize) -> String {
    let f = (b'a' + (s % 8) as u8) as char;
    let r = (b'8' - (s / 8) as u8) as char;
    format!("{}{}", f, r)
}

/// Castling right indices: [white queenside, white kingside, black queenside, black kingside]
pub const WQ: usize = 0;
pub const WK: usize = 1;
pub const BQ: usize = 2;
pub const BK: usize = 3;

#[derive(Clone, Debug, PartialEq, Eq, PartialOrd, Ord, Hash)]
pub struct Pos {
    pub sq: [u8; 64],
    pub white: bool,
    pub castling: [bool; 4],
    /// Square of the pawn that has just made a double step (the library's `ep_source`).
    pub ep: Option<u8>,
    pub clock: u16,
    pub number: u16,
}

/// What identifies a position for repetition purposes.
#[derive(Clone, Debug, PartialEq, Eq, PartialOrd, Ord, Hash)]
pub struct PosKey {
    pub sq: [u8; 64],
    pub white: bool,
    pub castling: [bool; 4],
    pub ep: Option<u8>,
}

#[derive(Clone, Copy, Debug, PartialEq, Eq, PartialOrd, Ord, Hash)]
pub struct RMove {
    pub kind: u8,
    pub cell: u8,
    pub src: u8,
    pub dst: u8,
}

impl RMove {
    pub fn promo_piece(&self) -> Option<u8> {
        match self.kind {
            K_PROMO_N => Some(N),
            K_PROMO_B => Some(B),
            K_PROMO_R => Some(R),
            K_PROMO_Q => Some(Q),
            _ => None,
        }
    }
    pub fn uci(&self) -> String {
        if self.kind == K_NULL {
            return "0000".to_string();
        }
        let mut s = format!("{}{}", sq_name(self.src as usize), sq_name(self.dst as usize));
        match self.promo_piece() {
            Some(N) => s.push('n'),
            Some(B) => s.push('b'),
            Some(R) => s.push('r'),
            Some(Q) => s.push('q'),
            _ => {}
        }
        s
    }
}

const KNIGHT_D: [(i32, i32); 8] = [
    (1, 2),
    (2, 1),
    (2, -1),
    (1, -2),
    (-1, -2),
    (-2, -1),
    (-2, 1),
    (-1, 2),
];
const KING_D: [(i32, i32); 8] = [
    (1, 0),
    (1, 1),
    (0, 1),
    (-1, 1),
    (-1, 0),
    (-1, -1),
    (0, -1),
    (1, -1),
];
const DIAG_D: [(i32, i32); 4] = [(1, 1), (1, -1), (-1, 1), (-1, -1)];
const LINE_D: [(i32, i32); 4] = [(1, 0), (-1, 0), (0, 1), (0, -1)];

impl Pos {
    pub fn empty() -> Pos {
        Pos {
            sq: [EMPTY; 64],
            white: true,
            castling: [false; 4],
            ep: None,
            clock: 0,
            number: 1,
        }
    }

    pub fn key(&self) -> PosKey {
        PosKey {
            sq: self.sq,
            white: self.white,
            castling: self.castling,
            ep: self.ep,
        }
    }

    /// Row delta of a forward pawn step for the given colour.
    #[inline]
    fn fwd(white: bool) -> i32 {
        if white {
            -1
        } else {
            1
        }
    }

    pub fn king_sq(&self, white: bool) -> Option<usize> {
        let k = cell(white, K);
        self.sq.iter().position(|&c| c == k)
    }

    /// Is square `s` attacked by a man of colour `by_white` (pseudo-legal capture
    /// geometry, en passant excluded)?
    pub fn attacked(&self, s: usize, by_white: bool) -> bool {
        let f = file_of(s);
        let r = row_of(s);
        // Pawns: a pawn of colour c standing on (f±1, r - fwd(c)) attacks (f, r).
        let pr = r - Self::fwd(by_white);
        for df in [-1, 1] {
            if on_board(f + df, pr) && self.sq[sq(f + df, pr)] == cell(by_white, P) {
                return true;
            }
        }
        for (df, dr) in KNIGHT_D {
            if on_board(f + df, r + dr) && self.sq[sq(f + df, r + dr)] == cell(by_white, N) {
                return true;
            }
        }
        for (df, dr) in KING_D {
            if on_board(f + df, r + dr) && self.sq[sq(f + df, r + dr)] == cell(by_white, K) {
                return true;
            }
        }
        for (dirs, slider) in [(DIAG_D, B), (LINE_D, R)] {
            for (df, dr) in dirs {
                let (mut cf, mut cr) = (f + df, r + dr);
                while on_board(cf, cr) {
                    let c = self.sq[sq(cf, cr)];
                    if c != EMPTY {
                        if c == cell(by_white, slider) || c == cell(by_white, Q) {
                            return true;
                        }
                        break;
                    }
                    cf += df;
                    cr += dr;
                }
            }
        }
        false
    }

    pub fn in_check(&self) -> bool {
        match self.king_sq(self.white) {
            Some(k) => self.attacked(k, !self.white),
            None => false,
        }
    }

    /// Is the king of the side that is *not* to move attacked?
    pub fn opponent_in_check(&self) -> bool {
        match self.king_sq(!self.white) {
            Some(k) => self.attacked(k, self.white),
            None => false,
        }
    }

    fn push_pawn_move(&self, out: &mut Vec<RMove>, src: usize, dst: usize) {
        let me = self.white;
        let last_row = if me { 0 } else { 7 };
        let c = cell(me, P);
        if row_of(dst) == last_row {
            for k in [K_PROMO_N, K_PROMO_B, K_PROMO_R, K_PROMO_Q] {
                out.push(RMove {
                    kind: k,
                    cell: c,
                    src: src as u8,
                    dst: dst as u8,
                });
            }
        } else {
            out.push(RMove {
                kind: K_SIMPLE,
                cell: c,
                src: src as u8,
                dst: dst as u8,
            });
        }
    }

    /// All pseudo-legal moves of the side to move (legal moves plus those whose only
    /// fault is leaving the own king attacked; castling already requires that the
    /// king is not in check and does not cross an attacked square).
    pub fn pseudo_legal(&self) -> Vec<RMove> {
        let me = self.white;
        let mut out = Vec::with_capacity(48);
        for s in 0..64usize {
            let c = self.sq[s];
            if c == EMPTY || !is_color(c, me) {
                continue;
            }
            let f = file_of(s);
            let r = row_of(s);
            match piece_of(c) {
                P => {
                    let d = Self::fwd(me);
                    let start_row = if me { 6 } else { 1 };
                    if on_board(f, r + d) && self.sq[sq(f, r + d)] == EMPTY {
                        self.push_pawn_move(&mut out, s, sq(f, r + d));
                        if r == start_row && self.sq[sq(f, r + 2 * d)] == EMPTY {
                            out.push(RMove {
                                kind: K_DOUBLE,
                                cell: c,
                                src: s as u8,
                                dst: sq(f, r + 2 * d) as u8,
                            });
                        }
                    }
                    for df in [-1, 1] {
                        if !on_board(f + df, r + d) {
                            continue;
                        }
                        let t = sq(f + df, r + d);
                        let tc = self.sq[t];
                        if tc != EMPTY && is_color(tc, !me) {
                            self.push_pawn_move(&mut out, s, t);
                        }
                    }
                    if let Some(e) = self.ep {
                        let e = e as usize;
                        let ep_row = if me { 3 } else { 4 };
                        if row_of(e) == r
                            && r == ep_row
                            && (file_of(e) - f).abs() == 1
                            && self.sq[e] == cell(!me, P)
                        {
                            let t = sq(file_of(e), r + d);
                            if self.sq[t] == EMPTY {
                                out.push(RMove {
                                    kind: K_EP,
                                    cell: c,
                                    src: s as u8,
                                    dst: t as u8,
                                });
                            }
                        }
                    }
                }
                N | K => {
                    let ds = if piece_of(c) == N { KNIGHT_D } else { KING_D };
                    for (df, dr) in ds {
                        if !on_board(f + df, r + dr) {
                            continue;
                        }
                        let t = sq(f + df, r + dr);
                        let tc = self.sq[t];
                        if tc == EMPTY || is_color(tc, !me) {
                            out.push(RMove {
                                kind: K_SIMPLE,
                                cell: c,
                                src: s as u8,
                                dst: t as u8,
                            });
                        }
                    }
                }
                pc => {
                    let mut dirs: Vec<(i32, i32)> = Vec::with_capacity(8);
                    if pc == B || pc == Q {
                        dirs.extend_from_slice(&DIAG_D);
                    }
                    if pc == R || pc == Q {
                        dirs.extend_from_slice(&LINE_D);
                    }
                    for (df, dr) in dirs {
                        let (mut cf, mut cr) = (f + df, r + dr);
                        while on_board(cf, cr) {
                            let t = sq(cf, cr);
                            let tc = self.sq[t];
                            if tc == EMPTY {
                                out.push(RMove {
                                    kind: K_SIMPLE,
                                    cell: c,
                                    src: s as u8,
                                    dst: t as u8,
                                });
                            } else {
                                if is_color(tc, !me) {
                                    out.push(RMove {
                                        kind: K_SIMPLE,
                                        cell: c,
                                        src: s as u8,
                                        dst: t as u8,
                                    });
                                }
                                break;
                            }
                            cf += df;
                            cr += dr;
                        }
                    }
                }
            }
        }
        // Castling
        let row = if me { 7 } else { 0 };
        let king = cell(me, K);
        let rook = cell(me, R);
        let e = sq(4, row);
        if self.sq[e] == king && !self.attacked(e, !me) {
            let (qi, ki) = if me { (WQ, WK) } else { (BQ, BK) };
            if self.castling[ki]
                && self.sq[sq(7, row)] == rook
                && self.sq[sq(5, row)] == EMPTY
                && self.sq[sq(6, row)] == EMPTY
                && !self.attacked(sq(5, row), !me)
            {
                out.push(RMove {
                    kind: K_CASTLE_K,
                    cell: king,
                    src: e as u8,
                    dst: sq(6, row) as u8,
                });
            }
            if self.castling[qi]
                && self.sq[sq(0, row)] == rook
                && self.sq[sq(1, row)] == EMPTY
                && self.sq[sq(2, row)] == EMPTY
                && self.sq[sq(3, row)] == EMPTY
                && !self.attacked(sq(3, row), !me)
            {
                out.push(RMove {
                    kind: K_CASTLE_Q,
                    cell: king,
                    src: e as u8,
                    dst: sq(2, row) as u8,
                });
            }
        }
        out
    }

    /// Applies a pseudo-legal (or null) move. Complete: squares, rights, en-passant
    /// mark, both counters (saturating) and side to move.
    pub fn make(&self, m: RMove) -> Pos {
        let mut p = self.clone();
        let me = self.white;
        p.ep = None;
        p.white = !me;
        if !me {
            p.number = p.number.saturating_add(1);
        }
        if m.kind == K_NULL {
            p.clock = p.clock.saturating_add(1);
            return p;
        }
        let src = m.src as usize;
        let dst = m.dst as usize;
        let moving = self.sq[src];
        let captured = self.sq[dst];
        let mut reset = captured != EMPTY || piece_of(moving) == P;
        p.sq[src] = EMPTY;
        p.sq[dst] = moving;
        match m.kind {
            K_DOUBLE => {
                p.ep = Some(dst as u8);
            }
            K_EP => {
                let t = sq(file_of(dst), row_of(src));
                p.sq[t] = EMPTY;
                reset = true;
            }
            K_CASTLE_K => {
                let row = row_of(src);
                p.sq[sq(7, row)] = EMPTY;
                p.sq[sq(5, row)] = cell(me, R);
            }
            K_CASTLE_Q => {
                let row = row_of(src);
                p.sq[sq(0, row)] = EMPTY;
                p.sq[sq(3, row)] = cell(me, R);
            }
            K_PROMO_N | K_PROMO_B | K_PROMO_R | K_PROMO_Q => {
                p.sq[dst] = cell(me, m.promo_piece().unwrap());
            }
            _ => {}
        }
        // Rights: lost when the king or a rook leaves its home square, or when
        // anything is captured on a rook's home square.
        for s in [src, dst] {
            match s {
                60 => {
                    p.castling[WQ] = false;
                    p.castling[WK] = false;
                }
                56 => p.castling[WQ] = false,
                63 => p.castling[WK] = false,
                4 => {
                    p.castling[BQ] = false;
                    p.castling[BK] = false;
                }
                0 => p.castling[BQ] = false,
                7 => p.castling[BK] = false,
                _ => {}
            }
        }
        p.clock = if reset { 0 } else { p.clock.saturating_add(1) };
        p
    }

    pub fn is_legal_after(&self, m: RMove) -> bool {
        let n = self.make(m);
        !n.opponent_in_check()
    }

    pub fn legal(&self) -> Vec<RMove> {
        let mut v = self.pseudo_legal();
        v.retain(|&m| self.is_legal_after(m));
        v
    }

    pub fn has_legal(&self) -> bool {
        self.pseudo_legal().into_iter().any(|m| self.is_legal_after(m))
    }

    /// Besides the two kings the board holds nothing, or a single knight, or only
    /// bishops that all stand on squares of one colour.
    pub fn insufficient_material(&self) -> bool {
        let mut knights = 0;
        let mut bishops_light = 0;
        let mut bishops_dark = 0;
        let mut other = 0;
        for s in 0..64usize {
            let c = self.sq[s];
            if c == EMPTY {
                continue;
            }
            match piece_of(c) {
                K => {}
                N => knights += 1,
                B => {
                    if (file_of(s) + row_of(s)) % 2 == 0 {
                        bishops_light += 1
                    } else {
                        bishops_dark += 1
                    }
                }
                _ => other += 1,
            }
        }
        if other > 0 {
            return false;
        }
        if knights == 0 && bishops_light == 0 && bishops_dark == 0 {
            return true;
        }
        if knights == 1 && bishops_light == 0 && bishops_dark == 0 {
            return true;
        }
        if knights == 0 && (bishops_light == 0 || bishops_dark == 0) {
            return true;
        }
        false
    }

    pub fn perft(&self, depth: u32) -> u64 {
        if depth == 0 {
            return 1;
        }
        let mut n = 0;
        for m in self.pseudo_legal() {
            let p = self.make(m);
            if p.opponent_in_check() {
                continue;
            }
            n += p.perft(depth - 1);
        }
        n
    }

    /// Structural validity in the sense of the library's gate (used only by the
    /// harness's own start-position generators to avoid wasting attempts; the real
    /// admission test is always `Board::try_from`).
    pub fn plausible(&self) -> bool {
        let mut wk = 0;
        let mut bk = 0;
        let mut w = 0;
        let mut b = 0;
        for s in 0..64usize {
            let c = self.sq[s];
            if c == EMPTY {
                continue;
            }
            if is_white(c) {
                w += 1
            } else {
                b += 1
            }
            if c == cell(true, K) {
                wk += 1
            }
            if c == cell(false, K) {
                bk += 1
            }
            if piece_of(c) == P && (row_of(s) == 0 || row_of(s) == 7) {
                return false;
            }
        }
        wk == 1 && bk == 1 && w <= 16 && b <= 16 && !self.opponent_in_check()
    }

    // ----- harness-side FEN (keeps the library's FEN code out of every oracle) -----

    pub fn from_fen(fen: &str) -> Option<Pos> {
        let mut it = fen.split_whitespace();
        let board = it.next()?;
        let side = it.next()?;
        let castling = it.next().unwrap_or("-");
        let ep = it.next().unwrap_or("-");
        let clock = it.next().unwrap_or("0");
        let number = it.next().unwrap_or("1");
        let mut p = Pos::empty();
        let mut s = 0usize;
        for ch in board.chars() {
            match ch {
                '/' => {}
                '1'..='8' => s += ch as usize - '0' as usize,
                _ => {
                    let white = ch.is_ascii_uppercase();
                    let pc = match ch.to_ascii_lowercase() {
                        'p' => P,
                        'k' => K,
                        'n' => N,
                        'b' => B,
                        'r' => R,
                        'q' => Q,
                        _ => return None,
                    };
                    if s >= 64 {
                        return None;
                    }
                    p.sq[s] = cell(white, pc);
                    s += 1;
                }
            }
        }
        if s != 64 {
            return None;
        }
        p.white = match side {
            "w" => true,
            "b" => false,
            _ => return None,
        };
        for ch in castling.chars() {
            match ch {
                'K' => p.castling[WK] = true,
                'Q' => p.castling[WQ] = true,
                'k' => p.castling[BK] = true,
                'q' => p.castling[BQ] = true,
                '-' => {}
                _ => return None,
            }
        }
        if ep != "-" {
            let b = ep.as_bytes();
            if b.len() != 2 {
                return None;
            }
            let f = (b[0] as i32) - ('a' as i32);
            if !(0..8).contains(&f) {
                return None;
            }
            // The mark in FEN is the square behind the pawn; the model stores the pawn's square.
            let row = if p.white { 3 } else { 4 };
            p.ep = Some(sq(f, row) as u8);
        }
        p.clock = clock.parse().ok()?;
        p.number = number.parse().ok()?;
        Some(p)
    }

    pub fn to_fen(&self) -> String {
        let mut s = String::new();
        for r in 0..8 {
            let mut empty = 0;
            for f in 0..8 {
                let c = self.sq[sq(f, r)];
                if c == EMPTY {
                    empty += 1;
                    continue;
                }
                if empty > 0 {
                    s.push_str(&empty.to_string());
                    empty = 0;
                }
                s.push(b".PKNBRQpknbrq"[c as usize] as char);
            }
            if empty > 0 {
                s.push_str(&empty.to_string());
            }
            if r != 7 {
                s.push('/');
            }
        }
        s.push(' ');
        s.push(if self.white { 'w' } else { 'b' });
        s.push(' ');
        let mut any = false;
        for (i, ch) in [(WK, 'K'), (WQ, 'Q'), (BK, 'k'), (BQ, 'q')] {
            if self.castling[i] {
                s.push(ch);
                any = true;
            }
        }
        if !any {
            s.push('-');
        }
        s.push(' ');
        match self.ep {
            Some(e) => {
                let e = e as usize;
                let row = if self.white { 2 } else { 5 };
                s.push_str(&sq_name(sq(file_of(e), row)));
            }
            None => s.push('-'),
        }
        s.push_str(&format!(" {} {}", self.clock, self.number));
        s
    }
}

/// Self-test of the model against published perft counts. Returns the list of
/// mismatches (empty = fine). This validates the *harness*, it says nothing about
/// owlchess.
pub fn perft_selftest() -> Vec<String> {
    let cases: &[(&str, &[u64])] = &[
        (
            "rnbqkbnr/pppppppp/8/8/8/8/PPPPPPPP/RNBQKBNR w KQkq - 0 1",
            &[20, 400, 8902, 197281],
        ),
        (
            "r3k2r/p1ppqpb1/bn2pnp1/3PN3/1p2P3/2N2Q1p/PPPBBPPP/R3K2R w KQkq - 0 1",
            &[48, 2039, 97862],
        ),
        ("8/2p5/3p4/KP5r/1R3p1k/8/4P1P1/8 w - - 0 1", &[14, 191, 2812, 43238]),
        (
            "r3k2r/Pppp1ppp/1b3nbN/nP6/BBP1P3/q4N2/Pp1P2PP/R2Q1RK1 w kq - 0 1",
            &[6, 264, 9467],
        ),
        (
            "r2q1rk1/pP1p2pp/Q4n2/bbp1p3/Np6/1B3NBn/pPPP1PPP/R3K2R b KQ - 0 1",
            &[6, 264, 9467],
        ),
        (
            "rnbq1k1r/pp1Pbppp/2p5/8/2B5/8/PPP1NnPP/RNBQK2R w KQ - 1 8",
            &[44, 1486, 62379],
        ),
        (
            "r4rk1/1pp1qppp/p1np1n2/2b1p1B1/2B1P1b1/P1NP1N2/1PP1QPPP/R4RK1 w - - 0 10",
            &[46, 2079, 89890],
        ),
        // en passant discovered check along the rank: d5xe6 is illegal
        ("8/8/8/K2Pp2r/8/8/8/7k w - e6 0 1", &[6]),
    ];
    let mut bad = Vec::new();
    for (fen, counts) in cases {
        let p = match Pos::from_fen(fen) {
            Some(p) => p,
            None => {
                bad.push(format!("cannot parse {}", fen));
                continue;
            }
        };
        if p.to_fen() != *fen {
            bad.push(format!("fen round trip {} -> {}", fen, p.to_fen()));
        }
        for (d, &want) in counts.iter().enumerate() {
            let got = p.perft(d as u32 + 1);
            if got != want {
                bad.push(format!("perft({}) of {} = {}, expected {}", d + 1, fen, got, want));
            }
        }
    }
    bad
}
