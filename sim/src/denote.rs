//! What a move-like value *denotes* in a position, according to the reference model.
//!
//! For values with a known meaning this gives the exact set D of model-legal moves
//! they can stand for; for arbitrary text only soundness is demanded (if accepted,
//! the applied move must be model-legal).

use crate::ops::{MoveLike, SanData};
use crate::refmodel::{self as rm, file_of, is_color, piece_of, row_of, Pos, RMove};

#[derive(Clone, Debug)]
pub struct Denot {
    /// If the value is accepted, the applied move must be one of these.
    pub allowed: Vec<RMove>,
    /// Refusing the value is a violation (it denotes exactly one legal move).
    pub must_accept: bool,
    /// Accepting the value is a violation (it denotes no legal move).
    pub must_refuse: bool,
    /// The meaning of the value was known to the harness (not arbitrary text).
    pub known: bool,
}

impl Denot {
    fn known(d: Vec<RMove>, strict: bool) -> Denot {
        Denot {
            must_accept: strict && d.len() == 1,
            must_refuse: d.is_empty(),
            allowed: d,
            known: true,
        }
    }
    fn unknown(legal: &[RMove]) -> Denot {
        Denot {
            allowed: legal.to_vec(),
            must_accept: false,
            must_refuse: false,
            known: false,
        }
    }
}

fn is_capture(pos: &Pos, m: &RMove) -> bool {
    m.kind == rm::K_EP || pos.sq[m.dst as usize] != rm::EMPTY
}

fn is_pawn(m: &RMove) -> bool {
    m.cell != 0 && piece_of(m.cell) == rm::P
}

fn by_coords(legal: &[RMove], src: u8, dst: u8, promo: Option<u8>) -> Vec<RMove> {
    legal
        .iter()
        .copied()
        .filter(|m| m.src == src && m.dst == dst && m.promo_piece() == promo)
        .collect()
}

pub fn denote_san_data(pos: &Pos, legal: &[RMove], data: &SanData) -> Denot {
    match data {
        SanData::Uci { src, dst, promo } => Denot::known(by_coords(legal, *src, *dst, *promo), true),
        SanData::UciNull => Denot::known(vec![], true),
        SanData::Castling { king_side } => {
            let k = if *king_side { rm::K_CASTLE_K } else { rm::K_CASTLE_Q };
            Denot::known(legal.iter().copied().filter(|m| m.kind == k).collect(), true)
        }
        SanData::PawnMove { dst, promo } => Denot::known(
            legal
                .iter()
                .copied()
                .filter(|m| {
                    is_pawn(m)
                        && m.dst == *dst
                        && file_of(m.src as usize) == file_of(m.dst as usize)
                        && m.promo_piece() == *promo
                })
                .collect(),
            true,
        ),
        SanData::PawnCapture { src_file, dst, promo } => Denot::known(
            legal
                .iter()
                .copied()
                .filter(|m| {
                    is_pawn(m)
                        && m.dst == *dst
                        && file_of(m.src as usize) == *src_file as i32
                        && file_of(m.src as usize) != file_of(m.dst as usize)
                        && m.promo_piece() == *promo
                })
                .collect(),
            true,
        ),
        SanData::PawnCaptureShort { src_file, dst_file, promo } => Denot::known(
            legal
                .iter()
                .copied()
                .filter(|m| {
                    is_pawn(m)
                        && file_of(m.src as usize) == *src_file as i32
                        && file_of(m.dst as usize) == *dst_file as i32
                        && *src_file != *dst_file
                        && m.promo_piece() == *promo
                })
                .collect(),
            true,
        ),
        SanData::Simple { piece, file, rank, capture, dst } => {
            let lenient: Vec<RMove> = legal
                .iter()
                .copied()
                .filter(|m| {
                    m.kind == rm::K_SIMPLE
                        && m.cell != 0
                        && is_color(m.cell, pos.white)
                        && piece_of(m.cell) == *piece
                        && m.dst == *dst
                        && file.map_or(true, |f| file_of(m.src as usize) == f as i32)
                        // rank hint is given as the library's rank index (0 = rank 8)
                        && rank.map_or(true, |r| row_of(m.src as usize) == r as i32)
                })
                .collect();
            let dst_empty = pos.sq[*dst as usize] == rm::EMPTY;
            if *capture && dst_empty {
                // A capture mark on a move to an empty square denotes nothing.
                return Denot::known(vec![], true);
            }
            if !*capture && !dst_empty {
                // No capture mark on a capture: accepting is lenient, refusing is strict; allow both.
                let mut d = Denot::known(lenient, false);
                d.must_refuse = false;
                return d;
            }
            Denot::known(lenient, true)
        }
    }
}

/// Parses the subset of SAN whose meaning the harness knows. Returns the data and the
/// check mark (0 none, 1 '+', 2 '++', 3 '#').
pub fn parse_known_san(text: &str) -> Option<(SanData, u8)> {
    if !text.is_ascii() {
        return None;
    }
    let (body, check) = if let Some(b) = text.strip_suffix("++") {
        (b, 2)
    } else if let Some(b) = text.strip_suffix('+') {
        (b, 1)
    } else if let Some(b) = text.strip_suffix('#') {
        (b, 3)
    } else {
        (text, 0)
    };
    let b = body.as_bytes();
    match body {
        "O-O" | "0-0" => return Some((SanData::Castling { king_side: true }, check)),
        "O-O-O" | "0-0-0" => return Some((SanData::Castling { king_side: false }, check)),
        "0000" => return Some((SanData::UciNull, check)),
        _ => {}
    }
    let file = |c: u8| -> Option<u8> {
        if (b'a'..=b'h').contains(&c) {
            Some(c - b'a')
        } else {
            None
        }
    };
    // row index (0 = rank 8)
    let row = |c: u8| -> Option<u8> {
        if (b'1'..=b'8').contains(&c) {
            Some(b'8' - c)
        } else {
            None
        }
    };
    let square = |f: u8, r: u8| -> Option<u8> { Some(row(r)? * 8 + file(f)?) };
    // UCI coordinates
    if b.len() == 4 || b.len() == 5 {
        if let (Some(s), Some(d)) = (square(b[0], b[1]), square(b[2], b[3])) {
            let promo = if b.len() == 5 {
                match b[4] {
                    b'n' => Some(rm::N),
                    b'b' => Some(rm::B),
                    b'r' => Some(rm::R),
                    b'q' => Some(rm::Q),
                    _ => return None,
                }
            } else {
                None
            };
            return Some((SanData::Uci { src: s, dst: d, promo }, check));
        }
    }
    if b.is_empty() {
        return None;
    }
    // Piece moves
    let piece = match b[0] {
        b'N' => Some(rm::N),
        b'B' => Some(rm::B),
        b'R' => Some(rm::R),
        b'Q' => Some(rm::Q),
        b'K' => Some(rm::K),
        _ => None,
    };
    if let Some(piece) = piece {
        let rest = &b[1..];
        if rest.len() < 2 {
            return None;
        }
        let (hints, d) = rest.split_at(rest.len() - 2);
        let dst = square(d[0], d[1])?;
        let mut i = 0;
        let mut fh = None;
        let mut rh = None;
        let mut capture = false;
        if i < hints.len() {
            if let Some(f) = file(hints[i]) {
                fh = Some(f);
                i += 1;
            }
        }
        if i < hints.len() {
            if let Some(r) = row(hints[i]) {
                rh = Some(r);
                i += 1;
            }
        }
        if i < hints.len() && (hints[i] == b'x' || hints[i] == b':') {
            capture = true;
            i += 1;
        }
        if i != hints.len() {
            return None;
        }
        return Some((SanData::Simple { piece, file: fh, rank: rh, capture, dst }, check));
    }
    // Pawn moves: optional promotion suffix
    let (core, promo) = match b.last() {
        Some(c @ (b'N' | b'B' | b'R' | b'Q')) => {
            let p = match c {
                b'N' => rm::N,
                b'B' => rm::B,
                b'R' => rm::R,
                _ => rm::Q,
            };
            let mut core = &b[..b.len() - 1];
            if core.last() == Some(&b'=') {
                core = &core[..core.len() - 1];
            }
            (core, Some(p))
        }
        _ => (b, None),
    };
    match core.len() {
        2 => {
            if let (Some(f1), Some(f2)) = (file(core[0]), file(core[1])) {
                return Some((SanData::PawnCaptureShort { src_file: f1, dst_file: f2, promo }, check));
            }
            let dst = square(core[0], core[1])?;
            Some((SanData::PawnMove { dst, promo }, check))
        }
        4 => {
            let f = file(core[0])?;
            if core[1] != b'x' && core[1] != b':' {
                return None;
            }
            let dst = square(core[2], core[3])?;
            Some((SanData::PawnCapture { src_file: f, dst, promo }, check))
        }
        _ => None,
    }
}

/// Is `text` exactly of the form `[a-h][1-8][a-h][1-8][nbrq]?` or `0000`?
pub fn parse_known_uci(text: &str) -> Option<Option<(u8, u8, Option<u8>)>> {
    if text == "0000" {
        return Some(None);
    }
    match parse_known_san(text)? {
        (SanData::Uci { src, dst, promo }, 0) => Some(Some((src, dst, promo))),
        _ => None,
    }
}

pub fn denote(pos: &Pos, legal: &[RMove], ml: &MoveLike) -> Denot {
    match ml {
        MoveLike::Move(m) => {
            Denot::known(legal.iter().copied().filter(|x| x == m).collect(), true)
        }
        MoveLike::UciMove { src, dst, promo } => {
            Denot::known(by_coords(legal, *src, *dst, *promo), true)
        }
        MoveLike::UciNull => Denot::known(vec![], true),
        MoveLike::Unchecked(m) | MoveLike::TryUnchecked(m) => {
            Denot::known(legal.iter().copied().filter(|x| x == m).collect(), true)
        }
        MoveLike::SanMove { data, .. } => denote_san_data(pos, legal, data),
        MoveLike::UciStr(s) => match parse_known_uci(s) {
            Some(Some((src, dst, promo))) => Denot::known(by_coords(legal, src, dst, promo), true),
            Some(None) => Denot::known(vec![], true),
            None => Denot::unknown(legal),
        },
        MoveLike::SanStr(s) => match parse_known_san(s) {
            Some((data, _)) => denote_san_data(pos, legal, &data),
            None => Denot::unknown(legal),
        },
    }
}

/// Renders SAN data in the harness's own spelling (variant selects among equivalent
/// spellings: capture mark 'x' / ':', '=' before the promotion piece or not, O-O / 0-0).
pub fn render_san(data: &SanData, check: u8, variant: u32) -> String {
    let sqn = |s: u8| rm::sq_name(s as usize);
    let fch = |f: u8| (b'a' + f) as char;
    let pch = |p: u8| b"PKNBRQ"[p as usize] as char;
    let cap = if variant & 1 == 0 { 'x' } else { ':' };
    let promo = |p: &Option<u8>| match p {
        Some(p) => {
            if variant & 2 == 0 {
                format!("={}", pch(*p))
            } else {
                format!("{}", pch(*p))
            }
        }
        None => String::new(),
    };
    let mut s = match data {
        SanData::Uci { src, dst, promo } => {
            let mut t = format!("{}{}", sqn(*src), sqn(*dst));
            if let Some(p) = promo {
                t.push(b"pknbrq"[*p as usize] as char);
            }
            t
        }
        SanData::UciNull => "0000".to_string(),
        SanData::Castling { king_side } => match (king_side, variant & 4 == 0) {
            (true, true) => "O-O".into(),
            (true, false) => "0-0".into(),
            (false, true) => "O-O-O".into(),
            (false, false) => "0-0-0".into(),
        },
        SanData::PawnMove { dst, promo: p } => format!("{}{}", sqn(*dst), promo(p)),
        SanData::PawnCapture { src_file, dst, promo: p } => {
            format!("{}{}{}{}", fch(*src_file), cap, sqn(*dst), promo(p))
        }
        SanData::PawnCaptureShort { src_file, dst_file, promo: p } => {
            format!("{}{}{}", fch(*src_file), fch(*dst_file), promo(p))
        }
        SanData::Simple { piece, file, rank, capture, dst } => {
            let mut t = String::new();
            t.push(pch(*piece));
            if let Some(f) = file {
                t.push(fch(*f));
            }
            if let Some(r) = rank {
                t.push((b'8' - *r) as char);
            }
            if *capture {
                t.push(cap);
            }
            t.push_str(&sqn(*dst));
            t
        }
    };
    match check {
        1 => s.push('+'),
        2 => s.push_str("++"),
        3 => s.push('#'),
        _ => {}
    }
    s
}

/// One valid SAN description of a model-legal move (hints chosen by `variant`).
pub fn san_data_for(pos: &Pos, m: &RMove, variant: u32) -> SanData {
    let src = m.src;
    let dst = m.dst;
    match m.kind {
        rm::K_CASTLE_K => return SanData::Castling { king_side: true },
        rm::K_CASTLE_Q => return SanData::Castling { king_side: false },
        _ => {}
    }
    if variant % 7 == 0 {
        return SanData::Uci { src, dst, promo: m.promo_piece() };
    }
    if is_pawn(m) {
        let sf = file_of(src as usize) as u8;
        let df = file_of(dst as usize) as u8;
        if sf == df {
            return SanData::PawnMove { dst, promo: m.promo_piece() };
        }
        if variant % 3 == 0 {
            return SanData::PawnCaptureShort { src_file: sf, dst_file: df, promo: m.promo_piece() };
        }
        return SanData::PawnCapture { src_file: sf, dst, promo: m.promo_piece() };
    }
    let hint = (variant / 8) % 4;
    SanData::Simple {
        piece: piece_of(m.cell),
        file: if hint & 1 != 0 { Some(file_of(src as usize) as u8) } else { None },
        rank: if hint & 2 != 0 { Some(row_of(src as usize) as u8) } else { None },
        capture: is_capture(pos, m),
        dst,
    }
}

/// Standard algebraic notation of a model-legal move, written by the harness from the rules
/// model alone: piece letter (or figurine), minimal origin hint computed among legal moves
/// only, capture mark, promotion suffix, castling symbols, '+' for check and '#' for mate.
pub fn standard_san(pos: &Pos, legal: &[RMove], m: &RMove, utf8: bool) -> String {
    if m.cell == 0 || m.cell > 12 || pos.sq[m.src as usize] != m.cell {
        // not a move of this position (the caller's reference has lost track of the game)
        return "?".to_string();
    }
    let piece_ch = |p: u8| -> char {
        if utf8 {
            ['\u{2659}', '\u{2654}', '\u{2658}', '\u{2657}', '\u{2656}', '\u{2655}'][p as usize]
        } else {
            b"PKNBRQ"[p as usize] as char
        }
    };
    let fch = |sq: u8| (b'a' + sq % 8) as char;
    let rch = |sq: u8| (b'8' - sq / 8) as char;
    let mut s = String::new();
    match m.kind {
        rm::K_CASTLE_K => s.push_str("O-O"),
        rm::K_CASTLE_Q => s.push_str("O-O-O"),
        _ => {
            let capture = is_capture(pos, m);
            if is_pawn(m) {
                if file_of(m.src as usize) != file_of(m.dst as usize) {
                    s.push(fch(m.src));
                    s.push('x');
                }
                s.push_str(&rm::sq_name(m.dst as usize));
                if let Some(p) = m.promo_piece() {
                    if !utf8 {
                        s.push('=');
                    }
                    s.push(piece_ch(p));
                }
            } else {
                s.push(piece_ch(piece_of(m.cell)));
                let rivals: Vec<&RMove> = legal
                    .iter()
                    .filter(|x| x.kind == rm::K_SIMPLE && x.cell == m.cell && x.dst == m.dst && x.src != m.src)
                    .collect();
                if !rivals.is_empty() {
                    let same_file = rivals.iter().any(|x| x.src % 8 == m.src % 8);
                    let same_rank = rivals.iter().any(|x| x.src / 8 == m.src / 8);
                    if same_rank || !same_file {
                        s.push(fch(m.src));
                    }
                    if same_file {
                        s.push(rch(m.src));
                    }
                }
                if capture {
                    s.push('x');
                }
                s.push_str(&rm::sq_name(m.dst as usize));
            }
        }
    }
    let next = pos.make(*m);
    if next.in_check() {
        s.push(if next.has_legal() { '+' } else { '#' });
    }
    s
}
