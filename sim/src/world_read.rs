//! Read phases: walkers and printers over the chain while the owner is blocked by
//! the shared borrow.

use crate::full::Full;
use crate::ops::{PrintSpec, ReadPhase, WOp};
use crate::world::*;
use owlchess::chain::{GameStatusPolicy, NumberPolicy};
use owlchess::moves::Style;
use owlchess::{Board, Color, Move, MoveChain, Outcome};
use std::fmt::{self, Write};

/// The `fmt::Write` seam behind every `Display`: accepts `limit` bytes, then fails.
pub struct LimitedSink {
    pub buf: String,
    pub limit: usize,
    pub failed: bool,
}

impl fmt::Write for LimitedSink {
    fn write_str(&mut self, s: &str) -> fmt::Result {
        if self.buf.len() + s.len() > self.limit {
            self.failed = true;
            return Err(fmt::Error);
        }
        self.buf.push_str(s);
        Ok(())
    }
}

pub fn style_of(i: u8) -> Style {
    match i % 3 {
        0 => Style::San,
        1 => Style::SanUtf8,
        _ => Style::Uci,
    }
}

pub fn nums_of(i: u8, custom: u64) -> NumberPolicy {
    match i % 3 {
        0 => NumberPolicy::Omit,
        1 => NumberPolicy::FromBoard,
        _ => NumberPolicy::Custom(custom as usize),
    }
}

pub fn status_of(i: u8) -> GameStatusPolicy {
    if i % 2 == 0 {
        GameStatusPolicy::Show
    } else {
        GameStatusPolicy::Hide
    }
}

fn status_token(o: &Option<Outcome>) -> &'static str {
    match o {
        Some(Outcome::Win { side: Color::White, .. }) => "1-0",
        Some(Outcome::Win { side: Color::Black, .. }) => "0-1",
        Some(Outcome::Draw(_)) => "1/2-1/2",
        None => "*",
    }
}

impl World {
    /// Text the styled list must print, assembled from per-move pieces rendered alone
    /// (the correctness of one move's notation is not judged here). `None` when an
    /// expectation cannot be formed inside the stated bounds.
    fn expected_styled(&self, nums: u8, style: u8, status: u8, custom: u64) -> Option<String> {
        let len = self.rc.len();
        let show = status % 2 == 0;
        if len == 0 {
            return Some(if show { status_token(&self.rc.outcome).to_string() } else { String::new() });
        }
        let start_num = self.rc.start.move_number as u64;
        if start_num + (len as u64) / 2 + 1 >= 65535 || custom > (1u64 << 32) {
            return None;
        }
        let black_start = self.rc.start.side == Color::Black;
        let n0 = match nums % 3 {
            0 => None,
            1 => Some(start_num),
            _ => Some(custom),
        };
        let mut out = String::new();
        for i in 0..len {
            // each move's text is written by the harness from the rules model (standard SAN with
            // minimal disambiguation among legal moves, or coordinates), not taken from the library
            let tok = match style % 3 {
                2 => crate::full::rmove_of(&self.rc.moves[i]).uci(),
                k => match &self.rc.san[i] {
                    Some(t) => t[k as usize].clone(),
                    None => return None,
                },
            };
            let white = (i % 2 == 0) != black_start;
            if let Some(n) = n0 {
                let num = n + ((i + black_start as usize) / 2) as u64;
                if i == 0 {
                    if white {
                        out.push_str(&format!("{}. ", num));
                    } else {
                        out.push_str(&format!("{}... ", num));
                    }
                } else if white {
                    out.push_str(&format!(" {}.", num));
                }
            }
            if i != 0 {
                out.push(' ');
            }
            out.push_str(&tok);
        }
        if show {
            out.push(' ');
            out.push_str(status_token(&self.rc.outcome));
        }
        Some(out)
    }

    fn fill_san(&mut self) {
        for i in 0..self.rc.len() {
            if self.rc.san[i].is_none() {
                let info = Info::of(self.rc.expect_board(i));
                let m = crate::full::rmove_of(&self.rc.moves[i]);
                self.rc.san[i] = Some([
                    crate::denote::standard_san(&info.pos, &info.legal, &m, false),
                    crate::denote::standard_san(&info.pos, &info.legal, &m, true),
                ]);
            }
        }
    }

    fn do_print(&mut self, p: &PrintSpec) -> Result<(), Violation> {
        if p.styled.is_some() {
            self.fill_san();
        }
        let limit = p.sink_limit.map(|n| n as usize).unwrap_or(usize::MAX);
        let mut sink = LimitedSink { buf: String::new(), limit, failed: false };
        match p.styled {
            None => {
                let r = write!(sink, "{}", self.chain.uci());
                self.stats.hit("op.print-uci");
                if sink.failed {
                    self.note_sink_error(limit, r.is_err());
                    return Ok(());
                }
                if !self.on(C17) {
                    return Ok(());
                }
                // replaying the text from the start position must rebuild the same moves
                let start = match Board::try_from(*self.chain.startpos()) {
                    Ok(b) => b,
                    Err(_) => return Ok(()),
                };
                match MoveChain::from_uci_list(start, &sink.buf) {
                    Ok(c) => {
                        let a: Vec<Move> = c.iter().collect();
                        if a != self.rc.moves {
                            return Err(self.fail(
                                C17,
                                "uci-roundtrip",
                                format!("UCI list {:?} replays to [{}], the game is [{}]", sink.buf, fmt_moves(&a), fmt_moves(&self.rc.moves)),
                            ));
                        }
                    }
                    Err(e) => {
                        return Err(self.fail(
                            C17,
                            "uci-roundtrip",
                            format!("UCI list {:?} does not replay from the start position: {}", sink.buf, e),
                        ))
                    }
                }
            }
            Some((nums, style, status)) => {
                if self.rc.moves.iter().any(|m| *m == Move::NULL) {
                    // a chain holding a null move (possible only through the unsafe routes) cannot be
                    // printed in SAN by design
                    self.stats.hit("note.print-skipped-null-move-in-chain");
                    return Ok(());
                }
                let want = self.expected_styled(nums, style, status, p.custom);
                if want.is_none() || p.custom > (1u64 << 32) {
                    self.stats.hit("note.print-outside-bounds");
                    return Ok(());
                }
                let r = write!(
                    sink,
                    "{}",
                    self.chain.styled(nums_of(nums, p.custom), style_of(style), status_of(status))
                );
                self.stats.hit("op.print-styled");
                if sink.failed {
                    self.note_sink_error(limit, r.is_err());
                    return Ok(());
                }
                let want = want.unwrap();
                if self.on(C17) && sink.buf != want {
                    return Err(self.fail(
                        C17,
                        "print",
                        format!(
                            "styled(nums={}, style={}, status={}, custom={}) printed {:?}, expected {:?}",
                            nums % 3,
                            style % 3,
                            status % 2,
                            p.custom,
                            sink.buf,
                            want
                        ),
                    ));
                }
                if self.rc.start.side == Color::Black && nums % 3 != 0 {
                    self.stats.hit("probe.print-black-start-numbered");
                }
            }
        }
        Ok(())
    }

    fn note_sink_error(&mut self, limit: usize, returned_err: bool) {
        self.stats.hit("fault.sink-error");
        if limit == 0 {
            self.stats.hit("probe.sink-error-at-byte-0");
        } else {
            self.stats.hit("probe.sink-error-later");
        }
        if !returned_err {
            // recorded only: the property does not speak about failing sinks
            self.stats.hit("probe.sink-error-swallowed");
        }
    }

    pub(crate) fn op_read(&mut self, r: &ReadPhase) -> R {
        let before = Full::of(self.chain.last());
        let len = self.rc.len();
        self.stats.hit("op.read-phase");
        {
            let nw = (r.walkers as usize).min(4);
            let chain = &self.chain;
            let mut walkers: Vec<_> = (0..nw).map(|_| chain.walk()).collect();
            let mut cursors = vec![0usize; nw];
            let mut last_dir = vec![0i8; nw];
            // what each walker has shown so far for each ply (for the round-trip clause of C04)
            let mut shown: Vec<std::collections::BTreeMap<usize, Full>> = vec![Default::default(); nw];
            let mut drift: Option<String> = None;
            let mut pending: Option<(bool, String)> = None;
            let mut hits: Vec<&'static str> = Vec::new();
            for (w, op) in r.script.iter().take(256) {
                let w = *w as usize;
                if w >= nw {
                    continue;
                }
                let p = cursors[w];
                let mut bad: Option<String> = None;
                match op {
                    WOp::Next => {
                        let got = walkers[w].next().map(|(b, m)| (Full::of(b), m));
                        hits.push("op.walker-next");
                        if last_dir[w] == -1 {
                            hits.push("probe.walker-direction-reversal");
                        }
                        last_dir[w] = 1;
                        if p < len {
                            if let Some((f, _)) = &got {
                                if let Some(prev) = shown[w].get(&p) {
                                    if let Some(d) = f.diff(prev) {
                                        drift.get_or_insert(format!("ply {}: {}", p, d));
                                    }
                                } else {
                                    shown[w].insert(p, f.clone());
                                }
                            }
                            match got {
                                Some((f, m)) => {
                                    if m != self.rc.moves[p] {
                                        bad = Some(format!("next() at cursor {} returned move {}, the game has {}", p, m, self.rc.moves[p]));
                                    } else if let Some(d) = f.diff(&self.rc.expect_full(p)) {
                                        bad = Some(format!(
                                            "next() at cursor {} returned a position that is not the one preceding move {} (walker vs game): {}",
                                            p, m, d
                                        ));
                                    }
                                }
                                None => bad = Some(format!("next() at cursor {} of {} returned None", p, len)),
                            }
                            cursors[w] = p + 1;
                        } else if got.is_some() {
                            bad = Some(format!("next() at the end (cursor {}) returned a move", p));
                        }
                    }
                    WOp::Prev => {
                        let got = walkers[w].prev().map(|(b, m)| (Full::of(b), m));
                        hits.push("op.walker-prev");
                        if last_dir[w] == 1 {
                            hits.push("probe.walker-direction-reversal");
                        }
                        last_dir[w] = -1;
                        if p > 0 {
                            if let Some((f, _)) = &got {
                                if let Some(prev) = shown[w].get(&(p - 1)) {
                                    if let Some(d) = f.diff(prev) {
                                        drift.get_or_insert(format!("ply {}: {}", p - 1, d));
                                    }
                                } else {
                                    shown[w].insert(p - 1, f.clone());
                                }
                            }
                            match got {
                                Some((f, m)) => {
                                    if m != self.rc.moves[p - 1] {
                                        bad = Some(format!("prev() at cursor {} returned move {}, the game has {}", p, m, self.rc.moves[p - 1]));
                                    } else if let Some(d) = f.diff(&self.rc.expect_full(p - 1)) {
                                        bad = Some(format!(
                                            "prev() at cursor {} returned a position that is not the one preceding move {} (walker vs game): {}",
                                            p, m, d
                                        ));
                                    }
                                }
                                None => bad = Some(format!("prev() at cursor {} returned None", p)),
                            }
                            cursors[w] = p - 1;
                        } else if got.is_some() {
                            bad = Some("prev() at the start returned a move".to_string());
                        }
                    }
                    WOp::Start => {
                        walkers[w].start();
                        cursors[w] = 0;
                        hits.push("probe.walker-jump-start");
                        last_dir[w] = 0;
                    }
                    WOp::End => {
                        walkers[w].end();
                        cursors[w] = len;
                        hits.push("probe.walker-jump-end");
                        last_dir[w] = 0;
                    }
                    WOp::Pos => {
                        if walkers[w].pos() != cursors[w] {
                            bad = Some(format!("pos() = {}, expected {}", walkers[w].pos(), cursors[w]));
                        }
                    }
                    WOp::Renew => {
                        shown[w].clear();
                        walkers[w] = chain.walk();
                        cursors[w] = 0;
                        last_dir[w] = 0;
                        hits.push("op.walker-renew");
                    }
                    WOp::Len => {
                        if walkers[w].len() != len || walkers[w].is_empty() != (len == 0) {
                            bad = Some(format!("len() = {}, the game has {} moves", walkers[w].len(), len));
                        }
                    }
                }
                if let Some(msg) = bad {
                    let positional = msg.contains("returned a position that is not");
                    pending = Some((positional, msg));
                    break;
                }
            }
            drop(walkers);
            for h in hits {
                self.stats.hit(h);
            }
            if let (Some(d), true, true) = (&drift, pending.is_none() || !self.on(C17), self.on(C04)) {
                // C04's clause about walkers, in the only form that cannot be blamed on the cursor
                // logic: the same walker, back at the same ply after other apply / undo steps, shows
                // a different board than it showed there before
                return Err(self.fail(
                    C04,
                    "undo-mismatch",
                    format!("a walker that came back to a ply it had already shown returned a different board there (now vs before), {}", d),
                ));
            }
            if let Some((positional, msg)) = pending {
                if self.on(C17) {
                    return Err(self.fail(C17, "walker", msg));
                }
                // (not reported under C04: a wrong position may come from the walker's cursor
                // logic rather than from un-make, and C04 would then be blamed while it holds)
                let _ = positional;
            }
        }
        for p in r.prints.iter().take(8) {
            self.do_print(p)?;
        }
        // the chain is untouched by reading
        if self.on(C17) {
            if let Some(d) = before.diff(&Full::of(self.chain.last())) {
                return Err(self.fail(C17, "walker", format!("a read phase changed the chain's position: {}", d)));
            }
            let listed: Vec<Move> = self.chain.iter().collect();
            if listed != self.rc.moves || *self.chain.outcome() != self.rc.outcome {
                return Err(self.fail(C17, "walker", "a read phase changed the chain's moves or outcome".into()));
            }
        }
        Ok(Exec::Done)
    }
}
