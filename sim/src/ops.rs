//! The concrete operation alphabet of a simulated run, with a line-oriented text
//! encoding used in replay files. A trace is a list of *concrete* operations (never
//! PRNG draws), so it stays meaningful when steps are deleted from it.

use crate::refmodel::RMove;

#[derive(Clone, Debug, PartialEq, Eq)]
pub enum SanData {
    Uci { src: u8, dst: u8, promo: Option<u8> },
    UciNull,
    Castling { king_side: bool },
    PawnMove { dst: u8, promo: Option<u8> },
    PawnCapture { src_file: u8, dst: u8, promo: Option<u8> },
    PawnCaptureShort { src_file: u8, dst_file: u8, promo: Option<u8> },
    Simple { piece: u8, file: Option<u8>, rank: Option<u8>, capture: bool, dst: u8 },
}

/// A move-like value handed to `push` / `make_raw` / `make`.
#[derive(Clone, Debug, PartialEq, Eq)]
pub enum MoveLike {
    /// `Move` built through `Move::new`
    Move(RMove),
    /// parsed `uci::Move`
    UciMove { src: u8, dst: u8, promo: Option<u8> },
    UciNull,
    /// parsed `san::Move`, built from its public fields; check: 0 none, 1 '+', 2 '++', 3 '#'
    SanMove { data: SanData, check: u8 },
    /// `make::Uci(text)`
    UciStr(String),
    /// `make::San(text)`
    SanStr(String),
    /// `unsafe { make::Unchecked::new(mv) }`, only ever built for a move that is legal where it is applied
    Unchecked(RMove),
    /// `unsafe { make::TryUnchecked::new(mv) }`, only ever built for a move that is semilegal where it is applied
    TryUnchecked(RMove),
}

#[derive(Clone, Copy, Debug, PartialEq, Eq)]
pub enum OutcomeSpec {
    /// winner is White?, reason index into WIN_REASONS
    Win(bool, u8),
    /// reason index into DRAW_REASONS
    Draw(u8),
}

#[derive(Clone, Copy, Debug, PartialEq, Eq)]
pub enum WOp {
    Next,
    Prev,
    Start,
    End,
    Pos,
    Len,
    /// drop this walker and create a fresh one (other walkers stay as they are)
    Renew,
}

#[derive(Clone, Debug, PartialEq, Eq)]
pub struct PrintSpec {
    /// None = UCI list; Some((nums, style, status)): nums 0 Omit, 1 FromBoard, 2 Custom(custom)
    pub styled: Option<(u8, u8, u8)>,
    pub custom: u64,
    /// Some(n): the sink fails once n bytes have been accepted (fault `sink-error`)
    pub sink_limit: Option<u32>,
}

#[derive(Clone, Debug, PartialEq, Eq, Default)]
pub struct ReadPhase {
    pub walkers: u8,
    pub script: Vec<(u8, WOp)>,
    pub prints: Vec<PrintSpec>,
}

/// One single-feature edit of a raw position (for the raw-board / hash probe).
#[derive(Clone, Copy, Debug, PartialEq, Eq)]
pub enum Edit {
    /// put cell code on square
    Square(u8, u8),
    /// move whatever stands on the first square to the second (overwriting it)
    MoveMan(u8, u8),
    Side,
    /// toggle castling right index 0..4 (WQ WK BQ BK)
    Castling(u8),
    /// set en-passant mark to the pawn square on the given file, or clear it (8)
    Ep(u8),
    /// set half-move clock
    Clock(u16),
    /// set move number
    Number(u16),
}

#[derive(Clone, Debug, PartialEq, Eq)]
pub enum SOp {
    /// `make_move_unchecked` of a move that is semilegal for the library *and* pseudo-legal for the model
    Make(RMove),
    /// `make_move_unchecked(NULL)`, only when not in check
    MakeNull,
    /// `Make::make_raw` of any move-like value; on success the undo is kept on the stack
    TryRaw(MoveLike),
    /// `TryUnchecked(mv).make_raw`, mv semilegal (precondition) - includes king-exposing moves
    TryUnchecked(RMove),
    /// `TryUnchecked(NULL).make_raw` - refused when in check
    TryNull,
    /// `Make::make` (functional) of any move-like value
    Functional(MoveLike),
    Unmake,
    Retire,
}

#[derive(Clone, Debug, PartialEq, Eq)]
pub enum Op {
    Push(MoveLike),
    /// `unsafe push_unchecked` of a move that is legal for the model and for `Move::validate`
    PushUnchecked(RMove),
    PushUciList(String),
    Pop,
    SetOutcome(OutcomeSpec),
    ResetOutcome(Option<OutcomeSpec>),
    ClearOutcome,
    SetAuto(u8),
    /// 0: continue on `clone()`; 1: continue on a chain that was built from another start and then
    /// overwritten with `clone_from`. The original is kept alive and compared later.
    Fork(u8),
    /// A mutation of a kept original (index, kind): 0 pop, 1 push a legal move (chosen by the
    /// second number), 2 toggle its stored outcome. Two live objects that both keep changing.
    ParkedStep(u8, u8, u8),
    /// Re-creates the (still empty) chain through another constructor: 0 `new`, 1 `from_fen`
    /// of the harness's FEN text, 2 `from_uci_list(b, "")`, 3 `new_initial()`, 4 `default()`
    /// (3 and 4 only when the start is the initial position)
    Construct(u8),
    /// variant = v % 11, index seed = v / 11
    EqTwin(u16),
    RebuildMoves,
    RebuildUci,
    /// Switches the run to sparse observation: `calc_outcome` is then queried only by
    /// explicit `QueryOutcome` steps instead of after every step, so that the oracle's own
    /// queries cannot mask state that a query refreshes (memoisation, lazy updates).
    SparseOutcomeQueries,
    QueryOutcome,
    /// `Blind(true)`: from here on the owner's pushes and pops are executed without the harness
    /// reading anything back from the chain (no snapshots, no invariants) until `Blind(false)`,
    /// which observes everything at once. State that a *read* would have refreshed (lazy or
    /// memoised fields) stays unobserved in between.
    Blind(bool),
    BoardMake(MoveLike),
    FenProbe(String),
    RawProbe(Edit),
    Read(ReadPhase),
    Spawn,
    S(u8, SOp),
}

// ---------------------------------------------------------------- encoding

fn hex(s: &str) -> String {
    let mut o = String::with_capacity(1 + 2 * s.len());
    o.push('x');
    for b in s.bytes() {
        o.push_str(&format!("{:02x}", b));
    }
    o
}

fn unhex(t: &str) -> Option<String> {
    let t = t.strip_prefix('x')?;
    if t.len() % 2 != 0 {
        return None;
    }
    let mut bytes = Vec::with_capacity(t.len() / 2);
    for i in (0..t.len()).step_by(2) {
        bytes.push(u8::from_str_radix(t.get(i..i + 2)?, 16).ok()?);
    }
    String::from_utf8(bytes).ok()
}

fn opt(o: Option<u8>) -> String {
    match o {
        Some(x) => x.to_string(),
        None => "-".into(),
    }
}

fn unopt(t: &str) -> Option<Option<u8>> {
    if t == "-" {
        Some(None)
    } else {
        t.parse().ok().map(Some)
    }
}

fn enc_rmove(m: &RMove) -> String {
    format!("{} {} {} {}", m.kind, m.cell, m.src, m.dst)
}

fn dec_rmove(t: &[&str]) -> Option<(RMove, usize)> {
    if t.len() < 4 {
        return None;
    }
    Some((
        RMove {
            kind: t[0].parse().ok()?,
            cell: t[1].parse().ok()?,
            src: t[2].parse().ok()?,
            dst: t[3].parse().ok()?,
        },
        4,
    ))
}

impl SanData {
    fn encode(&self) -> String {
        match self {
            SanData::Uci { src, dst, promo } => format!("uci {} {} {}", src, dst, opt(*promo)),
            SanData::UciNull => "ucinull".into(),
            SanData::Castling { king_side } => format!("castle {}", *king_side as u8),
            SanData::PawnMove { dst, promo } => format!("pm {} {}", dst, opt(*promo)),
            SanData::PawnCapture { src_file, dst, promo } => {
                format!("pc {} {} {}", src_file, dst, opt(*promo))
            }
            SanData::PawnCaptureShort { src_file, dst_file, promo } => {
                format!("pcs {} {} {}", src_file, dst_file, opt(*promo))
            }
            SanData::Simple { piece, file, rank, capture, dst } => format!(
                "simple {} {} {} {} {}",
                piece,
                opt(*file),
                opt(*rank),
                *capture as u8,
                dst
            ),
        }
    }

    fn decode(t: &[&str]) -> Option<(SanData, usize)> {
        let n = |i: usize| -> Option<u8> { t.get(i)?.parse().ok() };
        match *t.first()? {
            "uci" => Some((
                SanData::Uci { src: n(1)?, dst: n(2)?, promo: unopt(t.get(3)?)? },
                4,
            )),
            "ucinull" => Some((SanData::UciNull, 1)),
            "castle" => Some((SanData::Castling { king_side: n(1)? != 0 }, 2)),
            "pm" => Some((SanData::PawnMove { dst: n(1)?, promo: unopt(t.get(2)?)? }, 3)),
            "pc" => Some((
                SanData::PawnCapture { src_file: n(1)?, dst: n(2)?, promo: unopt(t.get(3)?)? },
                4,
            )),
            "pcs" => Some((
                SanData::PawnCaptureShort {
                    src_file: n(1)?,
                    dst_file: n(2)?,
                    promo: unopt(t.get(3)?)?,
                },
                4,
            )),
            "simple" => Some((
                SanData::Simple {
                    piece: n(1)?,
                    file: unopt(t.get(2)?)?,
                    rank: unopt(t.get(3)?)?,
                    capture: n(4)? != 0,
                    dst: n(5)?,
                },
                6,
            )),
            _ => None,
        }
    }
}

impl MoveLike {
    /// Built through an `unsafe` constructor: outside the scope of C02 ("without unsafe code").
    pub fn is_unsafe_built(&self) -> bool {
        matches!(self, MoveLike::Unchecked(_) | MoveLike::TryUnchecked(_))
    }

    pub fn encode(&self) -> String {
        match self {
            MoveLike::Move(m) => format!("m {}", enc_rmove(m)),
            MoveLike::UciMove { src, dst, promo } => format!("u {} {} {}", src, dst, opt(*promo)),
            MoveLike::UciNull => "unull".into(),
            MoveLike::SanMove { data, check } => format!("s {} {}", check, data.encode()),
            MoveLike::UciStr(s) => format!("us {}", hex(s)),
            MoveLike::SanStr(s) => format!("ss {}", hex(s)),
            MoveLike::Unchecked(m) => format!("unchecked {}", enc_rmove(m)),
            MoveLike::TryUnchecked(m) => format!("try_unchecked {}", enc_rmove(m)),
        }
    }

    fn decode(t: &[&str]) -> Option<(MoveLike, usize)> {
        match *t.first()? {
            "m" => {
                let (m, n) = dec_rmove(&t[1..])?;
                Some((MoveLike::Move(m), n + 1))
            }
            "u" => Some((
                MoveLike::UciMove {
                    src: t.get(1)?.parse().ok()?,
                    dst: t.get(2)?.parse().ok()?,
                    promo: unopt(t.get(3)?)?,
                },
                4,
            )),
            "unull" => Some((MoveLike::UciNull, 1)),
            "s" => {
                let check: u8 = t.get(1)?.parse().ok()?;
                let (data, n) = SanData::decode(&t[2..])?;
                Some((MoveLike::SanMove { data, check }, n + 2))
            }
            "us" => Some((MoveLike::UciStr(unhex(t.get(1)?)?), 2)),
            "ss" => Some((MoveLike::SanStr(unhex(t.get(1)?)?), 2)),
            "unchecked" => {
                let (m, n) = dec_rmove(&t[1..])?;
                Some((MoveLike::Unchecked(m), n + 1))
            }
            "try_unchecked" => {
                let (m, n) = dec_rmove(&t[1..])?;
                Some((MoveLike::TryUnchecked(m), n + 1))
            }
            _ => None,
        }
    }

    /// Short human-readable form for evidence samples and messages.
    pub fn pretty(&self) -> String {
        match self {
            MoveLike::Move(m) => format!(
                "Move{{kind={},cell={},{}}}",
                m.kind,
                b".PKNBRQpknbrq"[(m.cell as usize).min(12)] as char,
                m.uci()
            ),
            MoveLike::UciMove { src, dst, promo } => format!(
                "uci::Move({}{}{})",
                crate::refmodel::sq_name(*src as usize),
                crate::refmodel::sq_name(*dst as usize),
                match promo {
                    Some(p) => format!("={}", b"PKNBRQ"[(*p as usize).min(5)] as char),
                    None => String::new(),
                }
            ),
            MoveLike::UciNull => "uci::Move::Null".into(),
            MoveLike::SanMove { data, check } => format!("san::Move({:?},check={})", data, check),
            MoveLike::UciStr(s) => format!("Uci({:?})", s),
            MoveLike::SanStr(s) => format!("San({:?})", s),
            MoveLike::Unchecked(m) => format!("Unchecked({})", m.uci()),
            MoveLike::TryUnchecked(m) => format!("TryUnchecked({})", m.uci()),
        }
    }
}

impl OutcomeSpec {
    fn encode(&self) -> String {
        match self {
            OutcomeSpec::Win(w, r) => format!("win {} {}", *w as u8, r),
            OutcomeSpec::Draw(r) => format!("draw {}", r),
        }
    }
    fn decode(t: &[&str]) -> Option<(OutcomeSpec, usize)> {
        match *t.first()? {
            "win" => Some((
                OutcomeSpec::Win(t.get(1)?.parse::<u8>().ok()? != 0, t.get(2)?.parse().ok()?),
                3,
            )),
            "draw" => Some((OutcomeSpec::Draw(t.get(1)?.parse().ok()?), 2)),
            _ => None,
        }
    }
}

impl WOp {
    fn letter(&self) -> char {
        match self {
            WOp::Next => 'n',
            WOp::Prev => 'p',
            WOp::Start => 's',
            WOp::End => 'e',
            WOp::Pos => 'q',
            WOp::Len => 'l',
            WOp::Renew => 'r',
        }
    }
    fn from_letter(c: char) -> Option<WOp> {
        Some(match c {
            'n' => WOp::Next,
            'p' => WOp::Prev,
            's' => WOp::Start,
            'e' => WOp::End,
            'q' => WOp::Pos,
            'l' => WOp::Len,
            'r' => WOp::Renew,
            _ => return None,
        })
    }
}

impl ReadPhase {
    fn encode(&self) -> String {
        let script: Vec<String> = self
            .script
            .iter()
            .map(|(w, o)| format!("{}{}", w, o.letter()))
            .collect();
        let prints: Vec<String> = self
            .prints
            .iter()
            .map(|p| {
                let lim = match p.sink_limit {
                    Some(n) => n.to_string(),
                    None => "-".into(),
                };
                match p.styled {
                    None => format!("u:{}", lim),
                    Some((n, s, st)) => format!("s:{}:{}:{}:{}:{}", n, s, st, p.custom, lim),
                }
            })
            .collect();
        format!(
            "{} {} {}",
            self.walkers,
            if script.is_empty() { "-".to_string() } else { script.join(",") },
            if prints.is_empty() { "-".to_string() } else { prints.join(",") }
        )
    }

    fn decode(t: &[&str]) -> Option<ReadPhase> {
        let walkers: u8 = t.first()?.parse().ok()?;
        let mut script = Vec::new();
        let st = *t.get(1)?;
        if st != "-" {
            for item in st.split(',') {
                let (num, letter) = item.split_at(item.len().checked_sub(1)?);
                script.push((num.parse().ok()?, WOp::from_letter(letter.chars().next()?)?));
            }
        }
        let mut prints = Vec::new();
        let pt = *t.get(2)?;
        if pt != "-" {
            for item in pt.split(',') {
                let f: Vec<&str> = item.split(':').collect();
                let lim = |s: &str| -> Option<Option<u32>> {
                    if s == "-" {
                        Some(None)
                    } else {
                        s.parse().ok().map(Some)
                    }
                };
                match *f.first()? {
                    "u" => prints.push(PrintSpec {
                        styled: None,
                        custom: 0,
                        sink_limit: lim(f.get(1)?)?,
                    }),
                    "s" => prints.push(PrintSpec {
                        styled: Some((
                            f.get(1)?.parse().ok()?,
                            f.get(2)?.parse().ok()?,
                            f.get(3)?.parse().ok()?,
                        )),
                        custom: f.get(4)?.parse().ok()?,
                        sink_limit: lim(f.get(5)?)?,
                    }),
                    _ => return None,
                }
            }
        }
        Some(ReadPhase { walkers, script, prints })
    }
}

impl Edit {
    fn encode(&self) -> String {
        match self {
            Edit::Square(s, c) => format!("sq {} {}", s, c),
            Edit::MoveMan(a, b) => format!("move {} {}", a, b),
            Edit::Side => "side".into(),
            Edit::Castling(i) => format!("castling {}", i),
            Edit::Ep(f) => format!("ep {}", f),
            Edit::Clock(v) => format!("clock {}", v),
            Edit::Number(v) => format!("number {}", v),
        }
    }
    fn decode(t: &[&str]) -> Option<Edit> {
        Some(match *t.first()? {
            "sq" => Edit::Square(t.get(1)?.parse().ok()?, t.get(2)?.parse().ok()?),
            "move" => Edit::MoveMan(t.get(1)?.parse().ok()?, t.get(2)?.parse().ok()?),
            "side" => Edit::Side,
            "castling" => Edit::Castling(t.get(1)?.parse().ok()?),
            "ep" => Edit::Ep(t.get(1)?.parse().ok()?),
            "clock" => Edit::Clock(t.get(1)?.parse().ok()?),
            "number" => Edit::Number(t.get(1)?.parse().ok()?),
            _ => return None,
        })
    }
}

impl SOp {
    fn encode(&self) -> String {
        match self {
            SOp::Make(m) => format!("make {}", enc_rmove(m)),
            SOp::MakeNull => "makenull".into(),
            SOp::TryRaw(ml) => format!("tryraw {}", ml.encode()),
            SOp::TryUnchecked(m) => format!("tryunchecked {}", enc_rmove(m)),
            SOp::TryNull => "trynull".into(),
            SOp::Functional(ml) => format!("functional {}", ml.encode()),
            SOp::Unmake => "unmake".into(),
            SOp::Retire => "retire".into(),
        }
    }
    fn decode(t: &[&str]) -> Option<SOp> {
        Some(match *t.first()? {
            "make" => SOp::Make(dec_rmove(&t[1..])?.0),
            "makenull" => SOp::MakeNull,
            "tryraw" => SOp::TryRaw(MoveLike::decode(&t[1..])?.0),
            "tryunchecked" => SOp::TryUnchecked(dec_rmove(&t[1..])?.0),
            "trynull" => SOp::TryNull,
            "functional" => SOp::Functional(MoveLike::decode(&t[1..])?.0),
            "unmake" => SOp::Unmake,
            "retire" => SOp::Retire,
            _ => return None,
        })
    }
}

impl Op {
    pub fn encode(&self) -> String {
        match self {
            Op::Push(ml) => format!("push {}", ml.encode()),
            Op::PushUnchecked(m) => format!("push_unchecked {}", enc_rmove(m)),
            Op::PushUciList(s) => format!("push_uci_list {}", hex(s)),
            Op::Pop => "pop".into(),
            Op::SetOutcome(o) => format!("set_outcome {}", o.encode()),
            Op::ResetOutcome(Some(o)) => format!("reset_outcome {}", o.encode()),
            Op::ResetOutcome(None) => "reset_outcome none".into(),
            Op::ClearOutcome => "clear_outcome".into(),
            Op::SetAuto(f) => format!("set_auto_outcome {}", f),
            Op::Fork(k) => format!("fork {}", k),
            Op::ParkedStep(i, k, x) => format!("parked_step {} {} {}", i, k, x),
            Op::Construct(k) => format!("construct {}", k),
            Op::EqTwin(v) => format!("eq_twin {}", v),
            Op::RebuildMoves => "rebuild_moves".into(),
            Op::RebuildUci => "rebuild_uci".into(),
            Op::SparseOutcomeQueries => "sparse_outcome_queries".into(),
            Op::QueryOutcome => "query_outcome".into(),
            Op::Blind(on) => format!("blind {}", *on as u8),
            Op::BoardMake(ml) => format!("board_make {}", ml.encode()),
            Op::FenProbe(s) => format!("fen_probe {}", hex(s)),
            Op::RawProbe(e) => format!("raw_probe {}", e.encode()),
            Op::Read(r) => format!("read {}", r.encode()),
            Op::Spawn => "spawn".into(),
            Op::S(i, s) => format!("s {} {}", i, s.encode()),
        }
    }

    /// Encoded form followed by a human-readable comment (ignored by `decode`).
    pub fn pretty(&self) -> String {
        let e = self.encode();
        let c = match self {
            Op::Push(ml) | Op::BoardMake(ml) => ml.pretty(),
            Op::PushUciList(s) | Op::FenProbe(s) => format!("{:?}", s),
            Op::S(_, SOp::TryRaw(ml)) | Op::S(_, SOp::Functional(ml)) => ml.pretty(),
            Op::S(_, SOp::Make(m)) | Op::S(_, SOp::TryUnchecked(m)) | Op::PushUnchecked(m) => m.uci(),
            _ => return e,
        };
        format!("{} # {}", e, c)
    }

    pub fn decode(line: &str) -> Option<Op> {
        let line = match line.find(" # ") {
            Some(i) => &line[..i],
            None => line,
        };
        let t: Vec<&str> = line.split(' ').filter(|x| !x.is_empty()).collect();
        Some(match *t.first()? {
            "push" => Op::Push(MoveLike::decode(&t[1..])?.0),
            "push_unchecked" => Op::PushUnchecked(dec_rmove(&t[1..])?.0),
            "push_uci_list" => Op::PushUciList(unhex(t.get(1)?)?),
            "pop" => Op::Pop,
            "set_outcome" => Op::SetOutcome(OutcomeSpec::decode(&t[1..])?.0),
            "reset_outcome" => {
                if *t.get(1)? == "none" {
                    Op::ResetOutcome(None)
                } else {
                    Op::ResetOutcome(Some(OutcomeSpec::decode(&t[1..])?.0))
                }
            }
            "clear_outcome" => Op::ClearOutcome,
            "set_auto_outcome" => Op::SetAuto(t.get(1)?.parse().ok()?),
            "fork" => Op::Fork(t.get(1).and_then(|x| x.parse().ok()).unwrap_or(0)),
            "parked_step" => Op::ParkedStep(t.get(1)?.parse().ok()?, t.get(2)?.parse().ok()?, t.get(3)?.parse().ok()?),
            "construct" => Op::Construct(t.get(1)?.parse().ok()?),
            "eq_twin" => Op::EqTwin(t.get(1)?.parse().ok()?),
            "rebuild_moves" => Op::RebuildMoves,
            "rebuild_uci" => Op::RebuildUci,
            "sparse_outcome_queries" => Op::SparseOutcomeQueries,
            "query_outcome" => Op::QueryOutcome,
            "blind" => Op::Blind(t.get(1)?.parse::<u8>().ok()? != 0),
            "board_make" => Op::BoardMake(MoveLike::decode(&t[1..])?.0),
            "fen_probe" => Op::FenProbe(unhex(t.get(1)?)?),
            "raw_probe" => Op::RawProbe(Edit::decode(&t[1..])?),
            "read" => Op::Read(ReadPhase::decode(&t[1..])?),
            "spawn" => Op::Spawn,
            "s" => Op::S(t.get(1)?.parse().ok()?, SOp::decode(&t[2..])?),
            _ => return None,
        })
    }
}
