//! owlsim - seeded single-process operation-history simulator for owlchess with
//! injected refusals, rebuilds, sink errors and counter edges. See /verif/DESIGN.md.

mod denote;
mod full;
mod gen;
mod lib_api;
mod ops;
mod refmodel;
mod rng;
mod run;
mod starts;
mod world;
mod world_read;
mod world_search;

use ops::Op;
use rng::{mix, Fnv};
use run::{generate, minimize, replay, HarnessError};
use serde_json::{json, Value};
use std::collections::{BTreeMap, HashSet};
use std::sync::atomic::{AtomicU64, Ordering};
use std::sync::Mutex;
use std::time::Instant;
use world::{prop_bit, Stats, Violation};

const DEFAULT_SEED: u64 = 20260926;

fn prop_tag(prop: u32) -> u64 {
    0x5157_0000 + prop as u64
}

struct Args {
    m: BTreeMap<String, String>,
    pos: Vec<String>,
}

impl Args {
    fn parse(v: &[String]) -> Args {
        let mut m = BTreeMap::new();
        let mut pos = Vec::new();
        let mut i = 0;
        while i < v.len() {
            if let Some(k) = v[i].strip_prefix("--") {
                if i + 1 < v.len() && !v[i + 1].starts_with("--") {
                    m.insert(k.to_string(), v[i + 1].clone());
                    i += 2;
                } else {
                    m.insert(k.to_string(), "1".into());
                    i += 1;
                }
            } else {
                pos.push(v[i].clone());
                i += 1;
            }
        }
        Args { m, pos }
    }
    fn get(&self, k: &str) -> Option<&str> {
        self.m.get(k).map(|s| s.as_str())
    }
    fn num(&self, k: &str, d: u64) -> u64 {
        self.get(k).and_then(|s| s.parse().ok()).unwrap_or(d)
    }
}

struct Known {
    prop: String,
    class: String,
    pat: String,
    line: String,
}

fn load_known(path: Option<&str>) -> Vec<Known> {
    let mut out = Vec::new();
    let text = match path.and_then(|p| std::fs::read_to_string(p).ok()) {
        Some(t) => t,
        None => return out,
    };
    for line in text.lines() {
        let line = line.trim();
        if !line.starts_with("known:") {
            continue;
        }
        let mut prop = String::new();
        let mut class = String::new();
        let mut pat = String::new();
        for tok in line["known:".len()..].split_whitespace() {
            if let Some(v) = tok.strip_prefix("property=") {
                prop = v.into();
            } else if let Some(v) = tok.strip_prefix("class=") {
                class = v.into();
            }
        }
        if let Some(i) = line.find("match=") {
            pat = line[i + 6..].trim().trim_matches('"').to_string();
        }
        if !prop.is_empty() && !pat.is_empty() {
            out.push(Known { prop, class, pat, line: line.to_string() });
        }
    }
    out
}

fn known_match<'a>(known: &'a [Known], v: &Violation) -> Option<&'a Known> {
    known
        .iter()
        .find(|k| k.prop == v.prop && (k.class.is_empty() || k.class == v.class) && v.msg.contains(&k.pat))
}

fn op_kind(op: &Op) -> u64 {
    let e = op.encode();
    let mut it = e.split(' ');
    let a = it.next().unwrap_or("");
    let mut f = Fnv::default();
    f.str(a);
    if a == "s" {
        let _ = it.next();
        f.str(it.next().unwrap_or(""));
    } else if a == "push" || a == "board_make" {
        f.str(it.next().unwrap_or(""));
    }
    f.0
}

struct Sample {
    idx: u64,
    value: Value,
}

#[derive(Default)]
struct Acc {
    runs: u64,
    steps: u64,
    skipped: u64,
    aborted: u64,
    stats: Stats,
    nontrivial: Vec<u64>,
    positions: HashSet<u64>,
    positions_capped: bool,
    trigrams: HashSet<u64>,
    samples: Vec<Sample>,
    digest_xor: u64,
    digest_sum: u64,
    families: BTreeMap<&'static str, u64>,
    overlays: BTreeMap<&'static str, u64>,
    known_hits: BTreeMap<String, u64>,
    max_len: u64,
}

const POS_CAP: usize = 1_000_000;

fn is_nontrivial(s: &Stats) -> bool {
    let fault = s.c.iter().any(|(k, v)| k.starts_with("fault.") && *v > 0);
    let accepted = s.get("op.push-accepted") + s.get("op.push-uci-list") + s.get("op.push-unchecked") > 0;
    let undone = s.get("op.pop") + s.get("op.s-unmake") > 0;
    fault && accepted && undone
}

struct Found {
    idx: u64,
    seed_i: u64,
    start_fen: String,
    trace: Vec<Op>,
    violation: Violation,
    swarm: String,
}

fn cmd_run(a: &Args) -> i32 {
    let prop_name = a.get("prop").unwrap_or("C02").to_string();
    let prop = match prop_bit(&prop_name) {
        Some(p) => p,
        None => {
            eprintln!("unknown property {}", prop_name);
            return 2;
        }
    };
    let tier = a.get("tier").unwrap_or("quick").to_string();
    let seed = a.num("seed", DEFAULT_SEED);
    let default_runs = if tier == "thorough" { 400_000 } else { 3_000 };
    let runs = a.num("runs", default_runs);
    let threads = a.num("threads", 16).max(1) as usize;
    let profile = a.get("profile-name").unwrap_or("release").to_string();
    let out_path = a.get("out").map(|s| s.to_string());
    let replay_dir = a.get("replay-dir").unwrap_or("/verif/replays").to_string();
    let known = load_known(a.get("known"));
    let step_scale = a.num("step-scale", 100) as usize;
    let digests_out = a.get("digests-out").map(|s| s.to_string());
    let journal = a.get("journal").map(|s| s.to_string());
    if let Some(j) = &journal {
        let _ = std::fs::create_dir_all(j);
    }
    let skip: HashSet<u64> = a
        .get("skip")
        .map(|s| s.split(',').filter_map(|x| x.trim().parse().ok()).collect())
        .unwrap_or_default();
    // heartbeat: (run index in flight + 1, or 0 when the worker has finished)
    let beats: Vec<AtomicU64> = (0..threads).map(|_| AtomicU64::new(u64::MAX)).collect();
    let all_done = std::sync::atomic::AtomicBool::new(false);

    let t0 = Instant::now();
    let min_bad = AtomicU64::new(u64::MAX);
    let found: Mutex<Option<Found>> = Mutex::new(None);
    let herr: Mutex<Option<String>> = Mutex::new(None);
    let all_digests: Mutex<Vec<(u64, u64)>> = Mutex::new(Vec::new());
    let want_digests = digests_out.is_some();

    let accs: Vec<Acc> = std::thread::scope(|sc| {
        let mut hs = Vec::new();
        {
            // Watchdog: a run normally takes about a millisecond. A worker stuck on one run
            // for three minutes means the code under test hangs; abort so that crash triage
            // can identify the run (tiers are still bounded by run counts, this is a safety net).
            let beats = &beats;
            let all_done = &all_done;
            sc.spawn(move || {
                let mut last: Vec<(u64, Instant)> = beats.iter().map(|b| (b.load(Ordering::SeqCst), Instant::now())).collect();
                while !all_done.load(Ordering::SeqCst) {
                    std::thread::sleep(std::time::Duration::from_millis(500));
                    for (k, b) in beats.iter().enumerate() {
                        let v = b.load(Ordering::SeqCst);
                        if v != last[k].0 {
                            last[k] = (v, Instant::now());
                        } else if v != 0 && v != u64::MAX && last[k].1.elapsed().as_secs() > 180 {
                            eprintln!("WATCHDOG worker {} has been on run {} for more than 180 s; aborting", k, v - 1);
                            std::process::abort();
                        }
                    }
                }
            });
        }
        for t in 0..threads {
            let min_bad = &min_bad;
            let found = &found;
            let herr = &herr;
            let known = &known;
            let all_digests = &all_digests;
            let beats = &beats;
            let skip = &skip;
            let journal = journal.clone();
            hs.push(sc.spawn(move || {
                run::install_panic_hook();
                let mut jfile = journal.as_ref().and_then(|j| {
                    std::fs::OpenOptions::new().create(true).write(true).truncate(true).open(format!("{}/t{}", j, t)).ok()
                });
                let mut acc = Acc::default();
                let mut local_digests = Vec::new();
                let mut i = t as u64;
                while i < runs {
                    if i > min_bad.load(Ordering::SeqCst) || herr.lock().unwrap().is_some() {
                        break;
                    }
                    if skip.contains(&i) {
                        acc.stats.hit("note.run-skipped-after-out-of-scope-crash");
                        i += threads as u64;
                        continue;
                    }
                    beats[t].store(i + 1, Ordering::SeqCst);
                    if let Some(f) = jfile.as_mut() {
                        use std::io::{Seek, SeekFrom, Write};
                        let _ = f.seek(SeekFrom::Start(0));
                        let _ = f.write_all(format!("{:<20}\n", i).as_bytes());
                    }
                    let seed_i = mix(seed, prop_tag(prop), i);
                    let g = match generate(seed_i, prop, step_scale) {
                        Ok(g) => g,
                        Err(HarnessError(e)) => {
                            *herr.lock().unwrap() = Some(format!("run {} (seed {}): {}", i, seed_i, e));
                            break;
                        }
                    };
                    acc.runs += 1;
                    acc.steps += g.out.steps as u64;
                    acc.skipped += g.out.skipped as u64;
                    acc.aborted += g.out.aborted as u64;
                    acc.stats.merge(&g.out.stats);
                    acc.digest_xor ^= g.out.digest.rotate_left((i % 63) as u32);
                    acc.digest_sum = acc.digest_sum.wrapping_add(g.out.digest.wrapping_mul(i | 1));
                    *acc.families.entry(g.family).or_insert(0) += 1;
                    *acc.overlays.entry(g.overlay).or_insert(0) += 1;
                    if want_digests {
                        local_digests.push((i, g.out.digest));
                    }
                    let nontrivial = is_nontrivial(&g.out.stats);
                    if nontrivial {
                        acc.nontrivial.push(g.out.digest);
                    }
                    acc.max_len = acc.max_len.max(g.out.stats.get("op.push-accepted"));
                    if acc.positions.len() < POS_CAP {
                        for d in &g.out.pos_digests {
                            acc.positions.insert(*d);
                        }
                    } else {
                        acc.positions_capped = true;
                    }
                    let kinds: Vec<u64> = g.trace.iter().map(op_kind).collect();
                    for w in kinds.windows(3) {
                        let mut f = Fnv::default();
                        f.u64(w[0]);
                        f.u64(w[1]);
                        f.u64(w[2]);
                        acc.trigrams.insert(f.0);
                    }
                    if nontrivial && i < 64 && acc.samples.len() < 3 {
                        let shown: Vec<String> = g.trace.iter().take(400).map(|o| o.pretty()).collect();
                        acc.samples.push(Sample {
                            idx: i,
                            value: json!({
                                "run": i,
                                "run_seed": seed_i,
                                "start": g.start_fen,
                                "start_family": g.family,
                                "counter_overlay": g.overlay,
                                "swarm": g.swarm,
                                "steps": g.out.steps,
                                "inapplicable_steps": g.out.skipped,
                                "trace": shown,
                            }),
                        });
                    }
                    if let Some(v) = g.out.violation {
                        if let Some(k) = known_match(known, &v) {
                            *acc.known_hits.entry(k.line.clone()).or_insert(0) += 1;
                        } else {
                            let prev = min_bad.fetch_min(i, Ordering::SeqCst);
                            if i < prev {
                                let mut f = found.lock().unwrap();
                                let better = f.as_ref().map_or(true, |x| i < x.idx);
                                if better {
                                    *f = Some(Found {
                                        idx: i,
                                        seed_i,
                                        start_fen: g.start_fen.clone(),
                                        trace: g.trace.clone(),
                                        violation: v,
                                        swarm: g.swarm.clone(),
                                    });
                                }
                            }
                        }
                    }
                    i += threads as u64;
                }
                if want_digests {
                    all_digests.lock().unwrap().extend(local_digests);
                }
                beats[t].store(0, Ordering::SeqCst);
                if let Some(f) = jfile.as_mut() {
                    use std::io::{Seek, SeekFrom, Write};
                    let _ = f.seek(SeekFrom::Start(0));
                    let _ = f.write_all(format!("{:<20}\n", "done").as_bytes());
                }
                acc
            }));
        }
        let r: Vec<Acc> = hs.into_iter().map(|h| h.join().expect("worker thread died")).collect();
        all_done.store(true, Ordering::SeqCst);
        r
    });

    if let Some(e) = herr.lock().unwrap().take() {
        eprintln!("HARNESS-ERROR {}", e);
        return 2;
    }

    // merge (order-independent operations only, so the result does not depend on timing)
    let mut total = Acc::default();
    let mut samples: Vec<Sample> = Vec::new();
    for mut acc in accs {
        total.runs += acc.runs;
        total.steps += acc.steps;
        total.skipped += acc.skipped;
        total.aborted += acc.aborted;
        total.stats.merge(&acc.stats);
        total.nontrivial.append(&mut acc.nontrivial);
        total.positions_capped |= acc.positions_capped;
        for p in acc.positions {
            if total.positions.len() < 4 * POS_CAP {
                total.positions.insert(p);
            } else {
                total.positions_capped = true;
            }
        }
        total.trigrams.extend(acc.trigrams);
        total.digest_xor ^= acc.digest_xor;
        total.digest_sum = total.digest_sum.wrapping_add(acc.digest_sum);
        for (k, v) in acc.families {
            *total.families.entry(k).or_insert(0) += v;
        }
        for (k, v) in acc.overlays {
            *total.overlays.entry(k).or_insert(0) += v;
        }
        for (k, v) in acc.known_hits {
            *total.known_hits.entry(k).or_insert(0) += v;
        }
        total.max_len = total.max_len.max(acc.max_len);
        samples.append(&mut acc.samples);
    }
    samples.sort_by_key(|s| s.idx);
    samples.truncate(3);
    total.nontrivial.sort_unstable();
    total.nontrivial.dedup();
    let mut set_hash = Fnv::default();
    for d in &total.nontrivial {
        set_hash.u64(*d);
    }

    if let Some(path) = &digests_out {
        let mut v = all_digests.lock().unwrap().clone();
        v.sort_unstable();
        let mut s = String::new();
        for (i, d) in v {
            s.push_str(&format!("{} {:016x}\n", i, d));
        }
        if std::fs::write(path, s).is_err() {
            eprintln!("HARNESS-ERROR cannot write {}", path);
            return 2;
        }
    }

    let mut exit = 0;
    let mut violation_json = Value::Null;
    let found = found.lock().unwrap().take();
    if let Some(f) = found {
        run::install_panic_hook();
        let (min_start, minimized) = match minimize(&f.start_fen, &f.trace, prop, &f.violation) {
            Ok(m) => m,
            Err(HarnessError(e)) => {
                eprintln!("HARNESS-ERROR while minimising: {}", e);
                return 2;
            }
        };
        let same = |r: &run::RunOutput| matches!(&r.violation, Some(v) if v.prop == f.violation.prop && v.class == f.violation.class);
        let mut min_start = min_start;
        let mut minimized = minimized;
        let mut rep = match replay(&min_start, &minimized, prop) {
            Ok(r) => r,
            Err(HarnessError(e)) => {
                eprintln!("HARNESS-ERROR while replaying: {}", e);
                return 2;
            }
        };
        if !same(&rep) {
            // fall back to the trace exactly as it was generated
            min_start = f.start_fen.clone();
            minimized = f.trace.clone();
            rep = match replay(&min_start, &minimized, prop) {
                Ok(r) => r,
                Err(HarnessError(e)) => {
                    eprintln!("HARNESS-ERROR while replaying: {}", e);
                    return 2;
                }
            };
        }
        let v = match rep.violation.clone() {
            Some(v) if same(&rep) => v,
            _ => {
                // The violation was observed during the batch but the very same operations do not
                // produce it again in isolation: the code under test keeps state outside the objects
                // the run created (process-wide statics), so no replay file can be exact. Reported as
                // a harness error with the evidence, never as a VIOLATION that would not replay.
                eprintln!(
                    "HARNESS-ERROR run {} showed {} / {} ({}) but neither its minimised nor its full trace reproduces it in isolation; the library appears to keep state across runs",
                    f.idx, f.violation.prop, f.violation.class, f.violation.msg
                );
                return 2;
            }
        };
        let _ = std::fs::create_dir_all(&replay_dir);
        let path = format!("{}/{}-{}-{}-{}.json", replay_dir, prop_name, seed, f.idx, profile);
        let file = json!({
            "property": prop_name,
            "seed": seed,
            "run": f.idx,
            "run_seed": f.seed_i,
            "profile": profile,
            "swarm": f.swarm,
            "start_fen": min_start,
            "original_start_fen": f.start_fen,
            "original_trace_len": f.trace.len(),
            "trace": minimized.iter().map(|o| o.pretty()).collect::<Vec<_>>(),
            "violation": { "class": v.class, "step": v.step, "message": v.msg },
            "digest": format!("{:016x}", rep.digest),
        });
        if std::fs::write(&path, serde_json::to_string_pretty(&file).unwrap()).is_err() {
            eprintln!("HARNESS-ERROR cannot write {}", path);
            return 2;
        }
        println!(
            "CANDIDATE property={} replay={} class={} run={} ops={} (from {}) :: {}",
            prop_name,
            path,
            v.class,
            f.idx,
            minimized.len(),
            f.trace.len(),
            v.msg
        );
        violation_json = json!({ "class": v.class, "step": v.step, "message": v.msg, "replay": path, "run": f.idx });
        exit = 1;
    }
    for (line, n) in &total.known_hits {
        println!("KNOWN-FINDING: {} (hit {} times)", line.trim_start_matches("known:").trim(), n);
    }

    let wall = t0.elapsed().as_secs_f64();
    let mut faults = serde_json::Map::new();
    let mut probes = serde_json::Map::new();
    let mut opsm = serde_json::Map::new();
    let mut notes = serde_json::Map::new();
    let mut startsm = serde_json::Map::new();
    for (k, v) in &total.stats.c {
        if let Some(n) = k.strip_prefix("fault.") {
            faults.insert(n.to_string(), json!(v));
        } else if let Some(n) = k.strip_prefix("probe.") {
            probes.insert(n.to_string(), json!(v));
        } else if let Some(n) = k.strip_prefix("op.") {
            opsm.insert(n.to_string(), json!(v));
        } else if let Some(n) = k.strip_prefix("start.") {
            startsm.insert(n.to_string(), json!(v));
        } else {
            notes.insert(k.to_string(), json!(v));
        }
    }
    let partial = json!({
        "property_id": prop_name,
        "tier": tier,
        "seed": seed,
        "profile": profile,
        "runs": total.runs,
        "runs_requested": runs,
        "steps_total": total.steps,
        "inapplicable_steps": total.skipped,
        "runs_aborted_out_of_scope": total.aborted,
        "nontrivial_distinct": total.nontrivial.len(),
        "nontrivial_set_hash": format!("{:016x}", set_hash.0),
        "batch_digest": format!("{:016x}-{:016x}", total.digest_xor, total.digest_sum),
        "distinct_positions": total.positions.len(),
        "distinct_positions_capped": total.positions_capped,
        "distinct_op_trigrams": total.trigrams.len(),
        "max_accepted_pushes_in_one_run": total.max_len,
        "faults_fired": faults,
        "probes": probes,
        "ops": opsm,
        "notes": notes,
        "starts": startsm,
        "start_families": total.families,
        "counter_overlays": total.overlays,
        "samples": samples.into_iter().map(|s| s.value).collect::<Vec<_>>(),
        "violation": violation_json,
        "violations": if exit == 1 { 1 } else { 0 },
        "known_findings_hit": total.known_hits,
        "threads": threads,
        "wall_s": wall,
    });
    if let Some(p) = out_path {
        if let Some(dir) = std::path::Path::new(&p).parent() {
            let _ = std::fs::create_dir_all(dir);
        }
        if std::fs::write(&p, serde_json::to_string_pretty(&partial).unwrap()).is_err() {
            eprintln!("HARNESS-ERROR cannot write {}", p);
            return 2;
        }
    }
    println!(
        "owlsim {} {} profile={} seed={} runs={} steps={} nontrivial_distinct={} wall={:.1}s batch_digest={}",
        prop_name,
        tier,
        profile,
        seed,
        total.runs,
        total.steps,
        total.nontrivial.len(),
        wall,
        partial["batch_digest"].as_str().unwrap()
    );
    exit
}

fn cmd_replay(a: &Args) -> i32 {
    let path = match a.pos.get(1) {
        Some(p) => p.clone(),
        None => {
            eprintln!("usage: owlsim replay <file>");
            return 2;
        }
    };
    let text = match std::fs::read_to_string(&path) {
        Ok(t) => t,
        Err(e) => {
            eprintln!("HARNESS-ERROR cannot read {}: {}", path, e);
            return 2;
        }
    };
    let v: Value = match serde_json::from_str(&text) {
        Ok(v) => v,
        Err(e) => {
            eprintln!("HARNESS-ERROR {} is not JSON: {}", path, e);
            return 2;
        }
    };
    let prop_name = v["property"].as_str().unwrap_or("").to_string();
    let prop = match prop_bit(&prop_name) {
        Some(p) => p,
        None => {
            eprintln!("HARNESS-ERROR unknown property in {}", path);
            return 2;
        }
    };
    let start = v["start_fen"].as_str().unwrap_or("").to_string();
    let mut trace = Vec::new();
    for line in v["trace"].as_array().cloned().unwrap_or_default() {
        match line.as_str().and_then(Op::decode) {
            Some(op) => trace.push(op),
            None => {
                eprintln!("HARNESS-ERROR cannot decode operation {:?}", line);
                return 2;
            }
        }
    }
    run::install_panic_hook();
    let out = match replay(&start, &trace, prop) {
        Ok(o) => o,
        Err(HarnessError(e)) => {
            eprintln!("HARNESS-ERROR {}", e);
            return 2;
        }
    };
    let want_class = v["violation"]["class"].as_str().unwrap_or("");
    let want_msg = v["violation"]["message"].as_str().unwrap_or("");
    let want_step = v["violation"]["step"].as_u64().unwrap_or(0);
    match out.violation {
        Some(x) => {
            let exact = x.class == want_class && x.msg == want_msg && x.step as u64 == want_step;
            println!(
                "{} property={} class={} step={} digest={:016x} :: {}",
                if exact { "REPRODUCED" } else { "REPRODUCED-DIFFERENTLY" },
                x.prop,
                x.class,
                x.step,
                out.digest,
                x.msg
            );
            println!("VIOLATION property={} replay={}", x.prop, path);
            1
        }
        None => {
            println!("NOT-REPRODUCED property={} (recorded class {}) digest={:016x}", prop_name, want_class, out.digest);
            0
        }
    }
}

/// Executes exactly one run of a batch, journaling every operation before it is executed.
fn cmd_one(a: &Args) -> i32 {
    let prop = match a.get("prop").and_then(prop_bit) {
        Some(p) => p,
        None => return 2,
    };
    let seed = a.num("seed", DEFAULT_SEED);
    let idx = a.num("run", 0);
    let step_scale = a.num("step-scale", 100) as usize;
    if let Some(p) = a.get("oplog") {
        match std::fs::OpenOptions::new().create(true).write(true).truncate(true).open(p) {
            Ok(f) => *run::OPLOG.lock().unwrap() = Some(f),
            Err(e) => {
                eprintln!("HARNESS-ERROR cannot open {}: {}", p, e);
                return 2;
            }
        }
    }
    match generate(mix(seed, prop_tag(prop), idx), prop, step_scale) {
        Ok(g) => {
            println!("run {} finished: steps={} violation={}", idx, g.out.steps, g.out.violation.is_some());
            0
        }
        Err(HarnessError(e)) => {
            eprintln!("HARNESS-ERROR {}", e);
            2
        }
    }
}

enum ChildEnd {
    Exited(i32),
    Killed(String),
    Hung,
}

fn run_child(args: &[String], timeout_s: u64) -> ChildEnd {
    use std::process::{Command, Stdio};
    let exe = std::env::current_exe().expect("current_exe");
    let mut child = match Command::new(exe).args(args).stdout(Stdio::null()).stderr(Stdio::null()).spawn() {
        Ok(c) => c,
        Err(e) => return ChildEnd::Killed(format!("spawn failed: {}", e)),
    };
    let t0 = Instant::now();
    loop {
        match child.try_wait() {
            Ok(Some(st)) => {
                return match st.code() {
                    Some(c) if c == 0 || c == 1 || c == 2 => ChildEnd::Exited(c),
                    Some(c) => ChildEnd::Killed(format!("exit code {}", c)),
                    None => {
                        use std::os::unix::process::ExitStatusExt;
                        ChildEnd::Killed(format!("signal {}", st.signal().unwrap_or(0)))
                    }
                };
            }
            Ok(None) => {
                if t0.elapsed().as_secs() > timeout_s {
                    let _ = child.kill();
                    let _ = child.wait();
                    return ChildEnd::Hung;
                }
                std::thread::sleep(std::time::Duration::from_millis(2));
            }
            Err(e) => return ChildEnd::Killed(format!("wait failed: {}", e)),
        }
    }
}

fn write_crash_file(path: &str, prop_name: &str, seed: u64, idx: u64, profile: &str, start: &str, trace: &[Op], class: &str, msg: &str, orig_len: usize) -> bool {
    let file = json!({
        "property": prop_name,
        "seed": seed,
        "run": idx,
        "profile": profile,
        "start_fen": start,
        "original_trace_len": orig_len,
        "trace": trace.iter().map(|o| o.pretty()).collect::<Vec<_>>(),
        "violation": { "class": class, "step": trace.len(), "message": msg },
    });
    std::fs::write(path, serde_json::to_string_pretty(&file).unwrap()).is_ok()
}

/// After a batch process died abnormally: find the run, journal its operations in a child
/// process, minimise the trace with child processes, and write a replay file whose replay
/// kills (or hangs) the replaying process again.
fn cmd_triage(a: &Args) -> i32 {
    let prop_name = a.get("prop").unwrap_or("").to_string();
    let prop = match prop_bit(&prop_name) {
        Some(p) => p,
        None => return 2,
    };
    let seed = a.num("seed", DEFAULT_SEED);
    let profile = a.get("profile-name").unwrap_or("release").to_string();
    let journal = a.get("journal").unwrap_or("").to_string();
    let replay_dir = a.get("replay-dir").unwrap_or("/verif/replays").to_string();
    let step_scale = a.num("step-scale", 100);
    let mut cands: Vec<u64> = Vec::new();
    if let Ok(rd) = std::fs::read_dir(&journal) {
        for e in rd.flatten() {
            if let Ok(t) = std::fs::read_to_string(e.path()) {
                if let Ok(i) = t.trim().parse::<u64>() {
                    cands.push(i);
                }
            }
        }
    }
    cands.sort_unstable();
    cands.dedup();
    if cands.is_empty() {
        eprintln!("HARNESS-ERROR triage: no run in flight recorded in {}", journal);
        return 2;
    }
    let oplog = format!("{}/oplog", journal);
    for idx in cands {
        let _ = std::fs::remove_file(&oplog);
        let args: Vec<String> = vec![
            "one".into(), "--prop".into(), prop_name.clone(), "--seed".into(), seed.to_string(),
            "--run".into(), idx.to_string(), "--oplog".into(), oplog.clone(), "--step-scale".into(), step_scale.to_string(),
        ];
        let end = run_child(&args, 240);
        let (class, how) = match end {
            ChildEnd::Exited(_) => continue,
            ChildEnd::Killed(h) => ("crash", h),
            ChildEnd::Hung => ("hang", "no progress for 240 s".to_string()),
        };
        // rebuild the trace from the journal
        let text = std::fs::read_to_string(&oplog).unwrap_or_default();
        let mut lines = text.lines();
        let start = match lines.next().and_then(|l| l.strip_prefix("start ")) {
            Some(s) => s.to_string(),
            None => {
                eprintln!("HARNESS-ERROR triage: run {} died ({}) before its start position was chosen", idx, how);
                return 2;
            }
        };
        let mut trace: Vec<Op> = Vec::new();
        for l in lines {
            match Op::decode(l) {
                Some(op) => trace.push(op),
                None => break,
            }
        }
        let last = match trace.last() {
            Some(op) => op.clone(),
            None => {
                eprintln!("HARNESS-ERROR triage: run {} died ({}) while its start position was being checked", idx, how);
                return 2;
            }
        };
        let in_scope = world::World::panic_props(&last, "").iter().any(|p| *p == prop);
        if !in_scope {
            println!("CRASH-OUT-OF-SCOPE property={} run={} ({}) during {}", prop_name, idx, how, last.pretty());
            return 3;
        }
        // minimise with child processes
        let _ = std::fs::create_dir_all(&replay_dir);
        let tmp = format!("{}/cand.json", journal);
        let orig_len = trace.len();
        let dies = |t: &[Op]| -> bool {
            if !write_crash_file(&tmp, &prop_name, seed, idx, &profile, &start, t, class, "candidate", orig_len) {
                return false;
            }
            let r = run_child(&["replay".to_string(), tmp.clone()], if class == "hang" { 60 } else { 240 });
            match (class, r) {
                ("crash", ChildEnd::Killed(_)) => true,
                ("hang", ChildEnd::Hung) => true,
                _ => false,
            }
        };
        let mut cur = trace.clone();
        if dies(&cur) {
            let mut budget = if class == "hang" { 12usize } else { 400 };
            let mut chunk = (cur.len() / 2).max(1);
            loop {
                let mut i = 0;
                let mut progressed = false;
                while i < cur.len() && budget > 0 {
                    let end = (i + chunk).min(cur.len());
                    let mut cand = cur[..i].to_vec();
                    cand.extend_from_slice(&cur[end..]);
                    budget -= 1;
                    if dies(&cand) {
                        cur = cand;
                        progressed = true;
                    } else {
                        i = end;
                    }
                }
                if budget == 0 || (chunk == 1 && !progressed) {
                    break;
                }
                if chunk > 1 {
                    chunk /= 2;
                }
            }
        } else {
            eprintln!("HARNESS-ERROR triage: the journaled trace of run {} does not {} again when replayed", idx, class);
            return 2;
        }
        let path = format!("{}/{}-{}-{}-{}-{}.json", replay_dir, prop_name, seed, idx, profile, class);
        let msg = format!(
            "the process executing this history {} during {} (run {} of the batch)",
            if class == "hang" { format!("made no progress ({})", how) } else { format!("was terminated abnormally ({})", how) },
            cur.last().map(|o| o.pretty()).unwrap_or_default(),
            idx
        );
        if !write_crash_file(&path, &prop_name, seed, idx, &profile, &start, &cur, class, &msg, orig_len) {
            eprintln!("HARNESS-ERROR cannot write {}", path);
            return 2;
        }
        println!(
            "CANDIDATE property={} replay={} class={} run={} ops={} (from {}) :: {}",
            prop_name, path, class, idx, cur.len(), orig_len, msg
        );
        return 1;
    }
    eprintln!("HARNESS-ERROR triage: none of the runs in flight dies when executed alone");
    2
}

/// Generation and replay must be the same function of the trace: every generated run is
/// re-executed from its concrete trace and must give the same digest of observations.
fn cmd_replaycheck(a: &Args) -> i32 {
    let prop = match a.get("prop").and_then(prop_bit) {
        Some(p) => p,
        None => return 2,
    };
    let seed = a.num("seed", DEFAULT_SEED);
    let runs = a.num("runs", 2000);
    let mut bad = 0;
    for i in 0..runs {
        let g = match generate(mix(seed, prop_tag(prop), i), prop, 100) {
            Ok(g) => g,
            Err(HarnessError(e)) => {
                eprintln!("HARNESS-ERROR {}", e);
                return 2;
            }
        };
        let r = match replay(&g.start_fen, &g.trace, prop) {
            Ok(r) => r,
            Err(HarnessError(e)) => {
                eprintln!("HARNESS-ERROR {}", e);
                return 2;
            }
        };
        if r.digest != g.out.digest || r.steps != g.out.steps || r.violation.is_some() != g.out.violation.is_some() {
            eprintln!("run {}: generation digest {:016x} / replay digest {:016x}", i, g.out.digest, r.digest);
            bad += 1;
        }
    }
    println!("replaycheck {}: {} runs generated and replayed from their concrete traces, {} mismatches", a.get("prop").unwrap_or(""), runs, bad);
    if bad == 0 {
        0
    } else {
        2
    }
}

fn cmd_selftest() -> i32 {
    let mut bad = refmodel::perft_selftest();
    // encode/decode round trip of generated operations
    let mut n = 0;
    for i in 0..200u64 {
        match generate(mix(7, 1, i), 0, 50) {
            Ok(g) => {
                for op in &g.trace {
                    n += 1;
                    let e = op.pretty();
                    if Op::decode(&e).as_ref() != Some(op) {
                        bad.push(format!("operation does not survive encode/decode: {}", e));
                    }
                }
            }
            Err(HarnessError(e)) => bad.push(format!("selftest run {}: {}", i, e)),
        }
    }
    if bad.is_empty() {
        println!("selftest ok (model perft, {} operations round-tripped through the replay encoding)", n);
        0
    } else {
        for b in bad.iter().take(20) {
            eprintln!("SELFTEST-FAILURE {}", b);
        }
        2
    }
}

fn main() {
    let argv: Vec<String> = std::env::args().skip(1).collect();
    let a = Args::parse(&argv);
    run::install_panic_hook();
    let code = match a.pos.first().map(|s| s.as_str()) {
        Some("run") => cmd_run(&a),
        Some("replay") => cmd_replay(&a),
        Some("selftest") => cmd_selftest(),
        Some("one") => cmd_one(&a),
        Some("replaycheck") => cmd_replaycheck(&a),
        Some("triage") => cmd_triage(&a),
        _ => {
            eprintln!("usage: owlsim run|replay|selftest ...");
            2
        }
    };
    std::process::exit(code);
}
