//! The simulated world: one owner task holding the real `MoveChain` (plus a lock-step
//! `BaseMoveChain<SpyRepeat>`), searcher tasks with private boards, reader tasks in
//! read phases - and the oracles evaluated after every step.

use crate::denote::{denote, Denot};
use crate::full::{key_of, pos_of, pos_of_raw, revalidate, rmove_of, Full};
use crate::lib_api::{outcome_of, push_like, FILTERS};
use crate::ops::{Edit, MoveLike, Op, SOp};
use crate::refmodel::{self as rm, Pos, PosKey, RMove};
use owlchess::chain::{BaseMoveChain, Repeat};
use owlchess::moves::RawUndo;
use owlchess::types::{DrawReason, OutcomeFilter, WinReason};
use owlchess::{Board, Color, Move, MoveChain, Outcome, RawBoard};
use std::cell::RefCell;
use std::collections::BTreeMap;

pub const C02: u32 = 1;
pub const C04: u32 = 2;
pub const C05: u32 = 4;
pub const C13: u32 = 8;
pub const C14: u32 = 16;
pub const C17: u32 = 32;
pub const ALL_PROPS: [(u32, &str); 6] = [
    (C02, "C02"),
    (C04, "C04"),
    (C05, "C05"),
    (C13, "C13"),
    (C14, "C14"),
    (C17, "C17"),
];

pub fn prop_name(bit: u32) -> &'static str {
    ALL_PROPS.iter().find(|(b, _)| *b == bit).map(|(_, n)| *n).unwrap_or("C??")
}

pub fn prop_bit(name: &str) -> Option<u32> {
    ALL_PROPS.iter().find(|(_, n)| *n == name).map(|(b, _)| *b)
}

pub const MAX_CHAIN_LEN: usize = 1100;
pub const MAX_SEARCHERS: usize = 3;
pub const MAX_DEPTH: usize = 8;

#[derive(Clone, Debug)]
pub struct Violation {
    pub prop: &'static str,
    pub class: &'static str,
    pub step: usize,
    pub msg: String,
}

#[derive(Clone, Copy, Debug, PartialEq, Eq)]
pub enum Exec {
    Done,
    /// The operation was inapplicable in the current state (a documented panic or
    /// `unsafe` precondition would have been broken, or an index does not exist);
    /// nothing was called.
    Skipped,
}

pub type R = Result<Exec, Violation>;

#[derive(Clone, Debug, Default)]
pub struct Stats {
    pub c: BTreeMap<&'static str, u64>,
}

impl Stats {
    #[inline]
    pub fn hit(&mut self, k: &'static str) {
        *self.c.entry(k).or_insert(0) += 1;
    }
    pub fn add(&mut self, k: &'static str, n: u64) {
        *self.c.entry(k).or_insert(0) += n;
    }
    pub fn merge(&mut self, o: &Stats) {
        for (k, v) in &o.c {
            *self.c.entry(k).or_insert(0) += *v;
        }
    }
    pub fn get(&self, k: &str) -> u64 {
        self.c.get(k).copied().unwrap_or(0)
    }
}

// ------------------------------------------------------------------ SpyRepeat

#[derive(Clone, Debug, PartialEq, Eq)]
pub enum SpyEv {
    Push(PosKey),
    Pop(PosKey),
    BadPop(PosKey),
    Count(PosKey),
}

/// Instrumented repetition table plugged in through the `Repeat` seam the library
/// already has. Identifies positions by value (squares, side, rights, ep mark).
#[derive(Clone, Debug, Default)]
pub struct SpyRepeat {
    pub map: BTreeMap<PosKey, usize>,
    pub log: RefCell<Vec<SpyEv>>,
}

impl Repeat for SpyRepeat {
    fn push(&mut self, b: &Board) {
        let k = key_of(b);
        *self.map.entry(k.clone()).or_insert(0) += 1;
        self.log.borrow_mut().push(SpyEv::Push(k));
    }
    fn pop(&mut self, b: &Board) {
        let k = key_of(b);
        match self.map.get_mut(&k) {
            Some(n) if *n > 0 => {
                *n -= 1;
                if *n == 0 {
                    self.map.remove(&k);
                }
                self.log.borrow_mut().push(SpyEv::Pop(k));
            }
            // The trait says "must panic"; unwinding out of the middle of the library's
            // pop would only obscure the report, so the event is recorded instead and
            // judged by the oracle.
            _ => self.log.borrow_mut().push(SpyEv::BadPop(k)),
        }
    }
    fn count(&self, b: &Board) -> usize {
        let k = key_of(b);
        let n = self.map.get(&k).copied().unwrap_or(0);
        self.log.borrow_mut().push(SpyEv::Count(k));
        n
    }
}

// ------------------------------------------------------------------ reference chain

pub struct RefChain {
    pub start: RawBoard,
    pub moves: Vec<Move>,
    /// Functional replay of `moves` from `Board::try_from(start)` with `Board::make_move`
    /// on fresh boards; `replayed[i]` precedes move `i`, `replayed[len]` is the end.
    pub replayed: Vec<Board>,
    /// `seen[i]`: copy of `chain.last()` as observed when the chain stood at ply `i`
    /// (None for positions passed over inside `push_uci_list`).
    pub seen: Vec<Option<Board>>,
    pub keys: Vec<PosKey>,
    pub outcome: Option<Outcome>,
    /// harness-written notation of move `i` (San, SanUtf8), filled on demand
    pub san: Vec<Option<[String; 2]>>,
}

impl RefChain {
    pub fn len(&self) -> usize {
        self.moves.len()
    }
    pub fn expect_board(&self, i: usize) -> &Board {
        match &self.seen[i] {
            Some(b) => b,
            None => &self.replayed[i],
        }
    }
    pub fn expect_full(&self, i: usize) -> Full {
        Full::of(self.expect_board(i))
    }
    pub fn count_key(&self, k: &PosKey) -> usize {
        self.keys.iter().filter(|x| *x == k).count()
    }
    fn truncate(&mut self, len: usize) {
        self.moves.truncate(len);
        self.replayed.truncate(len + 1);
        self.seen.truncate(len + 1);
        self.keys.truncate(len + 1);
        self.san.truncate(len);
    }
}

pub struct Parked {
    pub chain: MoveChain,
    pub moves: Vec<Move>,
    pub outcome: Option<Outcome>,
    pub last: Full,
}

pub struct Frame {
    pub mv: Move,
    pub undo: RawUndo,
    pub before: Full,
    pub transient: bool,
}

pub struct Searcher {
    pub board: Board,
    pub origin: Full,
    pub stack: Vec<Frame>,
    pub nodes: usize,
    /// An `unsafe` primitive (unchecked make, un-make, `TryUnchecked`) has touched this
    /// board. C02 speaks about positions obtained *without* unsafe code, so its oracles
    /// are only applied to untainted boards.
    pub tainted: bool,
}

/// Model view of one position.
#[derive(Clone)]
pub struct Info {
    pub pos: Pos,
    pub pseudo: Vec<RMove>,
    pub legal: Vec<RMove>,
    pub in_check: bool,
}

impl Info {
    pub fn of(b: &Board) -> Info {
        let pos = pos_of(b);
        let pseudo = pos.pseudo_legal();
        let legal: Vec<RMove> = pseudo.iter().copied().filter(|m| pos.is_legal_after(*m)).collect();
        let in_check = pos.in_check();
        Info { pos, pseudo, legal, in_check }
    }
}

pub struct World {
    pub props: u32,
    pub step: usize,
    pub chain: MoveChain,
    pub spy: BaseMoveChain<SpyRepeat>,
    pub spy_seen: usize,
    pub rc: RefChain,
    pub parked: Vec<Parked>,
    pub searchers: Vec<Searcher>,
    pub hash_by_key: BTreeMap<PosKey, u64>,
    pub popped: Vec<Board>,
    pub stats: Stats,
    pub pos_digests: Vec<u64>,
    info: Option<Info>,
    /// The run reached a position the library's contract does not allow to be used any
    /// further (e.g. the mover's king is attacked) while the property that would report it is
    /// not being judged: the run stops here, quietly.
    pub poisoned: bool,
    /// what the owner did last: 0 other, 1 pop, 2 accepted special move
    pub last_owner: u8,
    /// sparse observation mode (see `Op::SparseOutcomeQueries`)
    pub sparse_outcome: bool,
    query_now: bool,
    /// blind burst in progress (see `Op::Blind`)
    pub blind: bool,
    /// property whose oracle is being evaluated right now (0: an operation is executing);
    /// a panic is attributed to it rather than to the operation that preceded the check
    pub judging: u32,
}

/// Stored hash equals the from-scratch hash and every stored occupancy set matches the squares.
pub fn hidden_consistent(b: &Board, f: &Full) -> bool {
    f.hash == b.raw().zobrist_hash() && f.sets_vs_squares().is_none()
}

pub fn digest_key(k: &PosKey) -> u64 {
    let mut f = crate::rng::Fnv::default();
    f.bytes(&k.sq);
    f.byte(k.white as u8);
    for c in k.castling {
        f.byte(c as u8);
    }
    f.byte(k.ep.map_or(255, |e| e));
    f.0
}

pub struct OutcomeExpect {
    pub forced: Option<Outcome>,
    pub mandatory: Vec<DrawReason>,
    pub claimable: Vec<DrawReason>,
}

impl OutcomeExpect {
    pub fn of(info: &Info, count: usize) -> OutcomeExpect {
        let mut e = OutcomeExpect { forced: None, mandatory: vec![], claimable: vec![] };
        if info.legal.is_empty() {
            e.forced = Some(if info.in_check {
                Outcome::Win {
                    side: if info.pos.white { Color::Black } else { Color::White },
                    reason: WinReason::Checkmate,
                }
            } else {
                Outcome::Draw(DrawReason::Stalemate)
            });
        }
        if info.pos.insufficient_material() {
            e.mandatory.push(DrawReason::InsufficientMaterial);
        }
        if info.pos.clock >= 150 {
            e.mandatory.push(DrawReason::Moves75);
        }
        if count >= 5 {
            e.mandatory.push(DrawReason::Repeat5);
        }
        if count >= 3 {
            e.claimable.push(DrawReason::Repeat3);
        }
        if info.pos.clock >= 100 {
            e.claimable.push(DrawReason::Moves50);
        }
        e
    }

    /// Class-based judgement: the outcome must belong to the highest non-empty class
    /// and its reason must be one that applies.
    pub fn judge(&self, got: Option<Outcome>) -> Result<(), String> {
        if let Some(f) = self.forced {
            return if got == Some(f) {
                Ok(())
            } else {
                Err(format!("forced outcome {:?} expected, got {:?}", f, got))
            };
        }
        if !self.mandatory.is_empty() {
            return match got {
                Some(Outcome::Draw(r)) if self.mandatory.contains(&r) => Ok(()),
                _ => Err(format!(
                    "a mandatory draw (one of {:?}) expected, got {:?}",
                    self.mandatory, got
                )),
            };
        }
        if !self.claimable.is_empty() {
            return match got {
                Some(Outcome::Draw(r)) if self.claimable.contains(&r) => Ok(()),
                _ => Err(format!(
                    "a claimable draw (one of {:?}) expected, got {:?}",
                    self.claimable, got
                )),
            };
        }
        if got.is_none() {
            Ok(())
        } else {
            Err(format!("no outcome applies, got {:?}", got))
        }
    }
}

/// Which filters an outcome passes, by the statement of C14 (classes, not the
/// library's `passes`).
pub fn class_passes(o: &Outcome, f: OutcomeFilter) -> Option<bool> {
    let class = match o {
        Outcome::Win { reason: WinReason::Checkmate, .. } => 0,
        Outcome::Draw(DrawReason::Stalemate) => 0,
        Outcome::Draw(DrawReason::InsufficientMaterial)
        | Outcome::Draw(DrawReason::Moves75)
        | Outcome::Draw(DrawReason::Repeat5) => 1,
        Outcome::Draw(DrawReason::Moves50) | Outcome::Draw(DrawReason::Repeat3) => 2,
        _ => return None,
    };
    Some(match f {
        OutcomeFilter::Force => class == 0,
        OutcomeFilter::Strict => class <= 1,
        OutcomeFilter::Relaxed => true,
    })
}

impl World {
    pub fn new(start: Board, props: u32) -> World {
        let start_raw = *start.raw();
        let chain = MoveChain::new(start.clone());
        let spy = BaseMoveChain::<SpyRepeat>::new(start.clone());
        let rc = RefChain {
            start: start_raw,
            moves: vec![],
            replayed: vec![start.clone()],
            seen: vec![Some(chain.last().clone())],
            keys: vec![key_of(chain.last())],
            outcome: None,
            san: vec![],
        };
        World {
            props,
            step: 0,
            chain,
            spy,
            spy_seen: 0,
            rc,
            parked: vec![],
            searchers: vec![],
            hash_by_key: BTreeMap::new(),
            popped: vec![],
            stats: Stats::default(),
            pos_digests: Vec::new(),
            info: None,
            poisoned: false,
            last_owner: 0,
            sparse_outcome: false,
            query_now: false,
            blind: false,
            judging: 0,
        }
    }

    #[inline]
    pub fn on(&self, p: u32) -> bool {
        self.props & p != 0
    }

    pub fn fail(&self, p: u32, class: &'static str, msg: String) -> Violation {
        Violation { prop: prop_name(p), class, step: self.step, msg }
    }

    /// Model view of the chain's current position (cached until the chain moves).
    pub fn info(&mut self) -> &Info {
        if self.info.is_none() {
            // during a blind burst the chain is not read: the reference replay stands in for it
            let b = if self.blind { self.rc.replayed.last().unwrap() } else { self.chain.last() };
            self.info = Some(Info::of(b));
        }
        self.info.as_ref().unwrap()
    }

    fn invalidate(&mut self) {
        self.info = None;
    }

    /// First check of a run: the start position itself.
    pub fn check_start(&mut self) -> Result<(), Violation> {
        self.expect_spy(&[SpyEv::Push(self.rc.keys[0].clone())])?;
        if self.on(C14) {
            self.check_filter_table()?;
        }
        self.check_invariants()
    }

    /// `Outcome::passes` over its whole finite domain against the three classes of C14
    /// (a table lookup, done once per run because it is cheap).
    fn check_filter_table(&mut self) -> Result<(), Violation> {
        use crate::lib_api::{DRAW_REASONS, WIN_REASONS};
        let mut all: Vec<Outcome> = DRAW_REASONS.iter().map(|r| Outcome::Draw(*r)).collect();
        for side in [Color::White, Color::Black] {
            for r in WIN_REASONS {
                all.push(Outcome::Win { side, reason: r });
            }
        }
        for f in FILTERS {
            for o in &all {
                if let Some(w) = class_passes(o, f) {
                    if o.passes(f) != w {
                        return Err(self.fail(
                            C14,
                            "filter-table",
                            format!("{:?}.passes({:?}) = {}, but by its class it must be {}", o, f, o.passes(f), w),
                        ));
                    }
                    if o.is_force() != class_passes(o, OutcomeFilter::Force).unwrap() {
                        return Err(self.fail(C14, "filter-table", format!("{:?}.is_force() = {}", o, o.is_force())));
                    }
                }
            }
        }
        Ok(())
    }

    // -------------------------------------------------------------- dispatcher

    pub fn exec(&mut self, op: &Op) -> R {
        if !matches!(op, Op::Push(_) | Op::Pop | Op::S(_, _) | Op::Spawn) {
            self.last_owner = 0;
        }
        // values built through an unsafe constructor are outside C02 ("without unsafe code")
        let saved_props = self.props;
        match op {
            Op::Push(ml) | Op::BoardMake(ml) | Op::S(_, SOp::TryRaw(ml)) | Op::S(_, SOp::Functional(ml)) if ml.is_unsafe_built() => {
                self.props &= !C02;
            }
            _ => {}
        }
        let r = self.exec_inner(op);
        self.props = saved_props;
        r
    }

    fn exec_inner(&mut self, op: &Op) -> R {
        let r = match op {
            Op::Blind(on) => {
                if *on == self.blind {
                    return Ok(Exec::Skipped);
                }
                self.blind = *on;
                self.invalidate();
                self.stats.hit(if *on { "op.blind-burst-begin" } else { "op.blind-burst-end" });
                Ok(Exec::Done)
            }
            Op::Push(ml) if self.blind => self.op_push_blind(ml),
            Op::Pop if self.blind => self.op_pop_blind(),
            // nothing else touches (or reads) the chain during a blind burst
            Op::PushUnchecked(_)
            | Op::PushUciList(_)
            | Op::SetAuto(_)
            | Op::QueryOutcome
            | Op::Fork(_)
            | Op::ParkedStep(_, _, _)
            | Op::Construct(_)
            | Op::EqTwin(_)
            | Op::RebuildMoves
            | Op::RebuildUci
            | Op::BoardMake(_)
            | Op::FenProbe(_)
            | Op::RawProbe(_)
            | Op::Read(_)
            | Op::Spawn
                if self.blind =>
            {
                Ok(Exec::Skipped)
            }
            Op::Push(ml) => self.op_push(ml),
            Op::PushUnchecked(m) => self.op_push_unchecked(m),
            Op::PushUciList(s) => self.op_push_list(s),
            Op::Pop => self.op_pop(),
            Op::SetOutcome(o) => {
                if self.rc.outcome.is_some() {
                    return Ok(Exec::Skipped);
                }
                let o = outcome_of(o);
                self.chain.set_outcome(o);
                self.spy.set_outcome(o);
                self.rc.outcome = Some(o);
                self.stats.hit("op.set_outcome");
                Ok(Exec::Done)
            }
            Op::ResetOutcome(o) => {
                let o = o.as_ref().map(outcome_of);
                self.chain.reset_outcome(o);
                self.spy.reset_outcome(o);
                self.rc.outcome = o;
                self.stats.hit("op.reset_outcome");
                Ok(Exec::Done)
            }
            Op::ClearOutcome => {
                self.chain.clear_outcome();
                self.spy.clear_outcome();
                self.rc.outcome = None;
                self.stats.hit("op.clear_outcome");
                Ok(Exec::Done)
            }
            Op::SetAuto(f) => self.op_set_auto(*f),
            Op::Fork(k) => self.op_fork(*k),
            Op::ParkedStep(i, k, x) => self.op_parked_step(*i as usize, *k, *x as usize),
            Op::Construct(k) => self.op_construct(*k),
            Op::EqTwin(v) => self.op_eq_twin(*v),
            Op::RebuildMoves => self.op_rebuild_moves(),
            Op::RebuildUci => self.op_rebuild_uci(),
            Op::SparseOutcomeQueries => {
                self.sparse_outcome = true;
                Ok(Exec::Done)
            }
            Op::QueryOutcome => {
                self.query_now = true;
                self.stats.hit("op.query-outcome");
                Ok(Exec::Done)
            }
            Op::BoardMake(ml) => self.op_board_make(ml),
            Op::FenProbe(s) => self.op_fen_probe(s),
            Op::RawProbe(e) => self.op_raw_probe(e),
            Op::Read(r) => self.op_read(r),
            Op::Spawn => self.op_spawn(),
            Op::S(i, s) => return self.op_searcher(*i as usize, s),
        }?;
        if r == Exec::Done && !self.blind {
            self.check_invariants()?;
        }
        Ok(r)
    }

    /// Properties (in order of preference) a panic escaping the given operation is
    /// reported under.
    pub fn panic_props(op: &Op, loc: &str) -> &'static [u32] {
        // where did it blow up: inside the make/un-make primitives or elsewhere?
        let in_primitives = loc.contains("moves/base.rs");
        match op {
            Op::Push(_) | Op::PushUciList(_) => &[C02, C13],
            Op::PushUnchecked(_) => &[C13],
            Op::BoardMake(_) => &[C02],
            Op::Pop => {
                if in_primitives {
                    &[C13, C04]
                } else {
                    &[C13]
                }
            }
            Op::SetAuto(_) | Op::QueryOutcome => &[C14],
            Op::RebuildMoves | Op::Fork(_) | Op::ParkedStep(_, _, _) | Op::EqTwin(_) | Op::Construct(_) => &[C13],
            Op::RebuildUci | Op::Read(_) => &[C17],
            Op::S(_, SOp::TryRaw(_)) | Op::S(_, SOp::Functional(_)) => &[C02],
            Op::S(_, _) => &[C04],
            Op::RawProbe(_) => &[C02],
            _ => &[],
        }
    }

    // -------------------------------------------------------------- invariants

    pub(crate) fn record_position(&mut self, b: &Board, full: &Full) -> Result<(), Violation> {
        let key = pos_of_raw(&full.raw).key();
        self.pos_digests.push(digest_key(&key));
        if self.on(C05) {
            let scratch = b.raw().zobrist_hash();
            if full.hash != scratch {
                return Err(self.fail(
                    C05,
                    "hidden-state",
                    format!(
                        "stored hash {:016x} != from-scratch hash {:016x} at {}",
                        full.hash,
                        scratch,
                        pos_of_raw(&full.raw).to_fen()
                    ),
                ));
            }
            if let Some(d) = full.sets_vs_squares() {
                return Err(self.fail(
                    C05,
                    "hidden-state",
                    format!("occupancy drift at {}: {}", pos_of_raw(&full.raw).to_fen(), d),
                ));
            }
            match self.hash_by_key.get(&key) {
                Some(h) if *h != full.hash => {
                    return Err(self.fail(
                        C05,
                        "hidden-state",
                        format!(
                            "same position (squares, side, rights, ep mark) hashed {:016x} earlier in this run and {:016x} now: {}",
                            h,
                            full.hash,
                            pos_of_raw(&full.raw).to_fen()
                        ),
                    ));
                }
                Some(_) => self.stats.hit("probe.same-key-revisited"),
                None => {
                    self.hash_by_key.insert(key, full.hash);
                }
            }
        }
        Ok(())
    }

    /// A position handed out by a safe call must be valid.
    pub fn check_valid(&mut self, b: &Board, what: &str) -> Result<(), Violation> {
        if self.on(C02) {
            if let Err(e) = revalidate(b) {
                return Err(self.fail(C02, "invalid-position", format!("{}: {}", what, e)));
            }
            if pos_of(b).opponent_in_check() {
                return Err(self.fail(
                    C02,
                    "invalid-position",
                    format!("{}: the side that has just moved is in check at {}", what, pos_of(b).to_fen()),
                ));
            }
        }
        Ok(())
    }

    pub fn check_invariants(&mut self) -> Result<(), Violation> {
        if self.poisoned {
            return Ok(());
        }
        self.judging = C13;
        let r = self.check_invariants_inner();
        self.judging = 0;
        r
    }

    fn check_invariants_inner(&mut self) -> Result<(), Violation> {
        let last = self.chain.last().clone();
        let full = Full::of(&last);
        let len = self.rc.len();

        if self.on(C13) {
            if self.chain.len() != len {
                return Err(self.fail(
                    C13,
                    "refinement",
                    format!("len() = {}, {} moves were accepted", self.chain.len(), len),
                ));
            }
            if self.chain.is_empty() != (len == 0) {
                return Err(self.fail(C13, "refinement", "is_empty() disagrees with len()".into()));
            }
            let listed: Vec<Move> = self.chain.iter().collect();
            if listed != self.rc.moves {
                return Err(self.fail(
                    C13,
                    "refinement",
                    format!(
                        "recorded move list [{}] differs from the accepted moves [{}]",
                        fmt_moves(&listed),
                        fmt_moves(&self.rc.moves)
                    ),
                ));
            }
            // the list through the iterator's other methods
            if self.chain.iter().count() != len || self.chain.iter().last() != self.rc.moves.last().copied() {
                return Err(self.fail(C13, "refinement", "iter().count() / iter().last() disagree with the accepted moves".into()));
            }
            if len > 0 {
                let k = self.step % len;
                let via_nth = self.chain.iter().nth(k);
                let via_skip = self.chain.iter().skip(k).next();
                let tail: Vec<Move> = self.chain.iter().skip(k).collect();
                let stepped: Vec<Move> = self.chain.iter().step_by(2).collect();
                let want_stepped: Vec<Move> = self.rc.moves.iter().copied().step_by(2).collect();
                if via_nth != Some(self.rc.moves[k]) || via_skip != Some(self.rc.moves[k]) || tail != self.rc.moves[k..] || stepped != want_stepped {
                    return Err(self.fail(
                        C13,
                        "refinement",
                        format!("iter().nth({k}) / skip({k}) / step_by(2) do not yield the accepted moves"),
                    ));
                }
                let mut it = self.chain.iter();
                let lo = it.size_hint().0;
                if lo > len || it.size_hint().1.map_or(false, |hi| hi < len) {
                    return Err(self.fail(C13, "refinement", format!("iter().size_hint() = {:?} for {} moves", it.size_hint(), len)));
                }
                let _ = it.next();
            }
            for i in 0..len {
                if self.chain.get(i) != self.rc.moves[i] {
                    return Err(self.fail(C13, "refinement", format!("get({}) differs from the accepted move", i)));
                }
            }
            if *self.chain.startpos() != self.rc.start {
                return Err(self.fail(C13, "refinement", "startpos() changed".into()));
            }
            if *self.chain.outcome() != self.rc.outcome {
                return Err(self.fail(
                    C13,
                    "refinement",
                    format!("outcome() = {:?}, reference has {:?}", self.chain.outcome(), self.rc.outcome),
                ));
            }
            if self.chain.is_finished() != self.rc.outcome.is_some() {
                return Err(self.fail(C13, "refinement", "is_finished() disagrees with outcome()".into()));
            }
            let want = Full::of(&self.rc.replayed[len]);
            if let Some(d) = full.diff(&want) {
                return Err(self.fail(
                    C13,
                    "refinement",
                    format!(
                        "current position differs from replaying the {} accepted moves from the start (chain vs replay): {}",
                        len, d
                    ),
                ));
            }
        }

        self.judging = C02;
        self.check_valid(&last, "chain.last()")?;
        self.judging = C05;
        if !self.on(C02) && !self.on(C05) && !self.on(C14) && !hidden_consistent(&last, &full) {
            // the stored hash or an occupancy set no longer matches the squares: C02 and C05 report
            // that; under C04, C13 and C17 the object is outside the library's contract from here on
            // (their statements are about valid positions), so the run stops. C14 goes on: its
            // statement is about observable results - occurrence counts by position value and
            // outcomes - and a repetition table keyed by a drifting hash, or a legal-move probe misled
            // by a stale set, makes exactly those wrong (seeded change S-C14-20)
            self.stats.hit("note.run-stopped-at-inconsistent-hidden-state");
            self.poisoned = true;
            return Ok(());
        }
        if !pos_of(&last).plausible() {
            // C02 would have reported it just above; under any other property the board must
            // simply not be used any more
            self.stats.hit("note.run-stopped-at-invalid-position");
            self.poisoned = true;
            return Ok(());
        }
        self.record_position(&last, &full)?;

        if !self.on(C13) {
            // what C13 would report - the chain no longer matches the reference - makes every
            // other oracle meaningless from here on
            let diverged = self.chain.len() != len
                || *self.chain.startpos() != self.rc.start
                || full.raw != *self.rc.replayed[len].raw();
            if diverged {
                self.stats.hit("note.run-stopped-at-divergence-from-the-reference");
                self.poisoned = true;
                return Ok(());
            }
        }

        self.judging = C14;
        if self.on(C14) {
            let key = self.rc.keys[len].clone();
            let count = self.rc.count_key(&key);
            let info = self.info().clone();
            let exp = OutcomeExpect::of(&info, count);
            let observe = !self.sparse_outcome || self.query_now;
            self.query_now = false;
            let got = if observe { self.chain.calc_outcome() } else { None };
            if !observe {
                self.stats.hit("probe.step-without-outcome-query");
            }
            if let (true, Err(e)) = (observe, exp.judge(got)) {
                return Err(self.fail(
                    C14,
                    "outcome",
                    format!(
                        "calc_outcome() at {} (occurrences of this position so far: {}): {}",
                        info.pos.to_fen(),
                        count,
                        e
                    ),
                ));
            }
            let lib_count = self.chain.verif_repeat().count(self.chain.last());
            if lib_count != count {
                return Err(self.fail(
                    C14,
                    "repeat-count",
                    format!(
                        "repetition table counts {} occurrences of the current position, the game history has {} ({})",
                        lib_count,
                        count,
                        info.pos.to_fen()
                    ),
                ));
            }
            let spy_got = if observe { self.spy.calc_outcome() } else { None };
            if let (true, Err(e)) = (observe, exp.judge(spy_got)) {
                return Err(self.fail(
                    C14,
                    "outcome",
                    format!("calc_outcome() with a by-value repetition table at {}: {}", info.pos.to_fen(), e),
                ));
            }
            // count events issued by the call above must name the current position
            let log = self.spy.verif_repeat().log.borrow();
            for ev in &log[self.spy_seen.min(log.len())..] {
                match ev {
                    SpyEv::Count(k) if *k == key => {}
                    other => {
                        let msg = format!("unexpected repetition-table call during calc_outcome: {}", fmt_ev(other));
                        drop(log);
                        return Err(self.fail(C14, "repeat-calls", msg));
                    }
                }
            }
            let n = log.len();
            drop(log);
            self.spy_seen = n;
            if got.is_some() {
                match got {
                    Some(Outcome::Draw(DrawReason::Repeat3)) => self.stats.hit("probe.repeat3"),
                    Some(Outcome::Draw(DrawReason::Repeat5)) => self.stats.hit("probe.repeat5"),
                    Some(Outcome::Draw(DrawReason::Moves50)) => self.stats.hit("probe.moves50"),
                    Some(Outcome::Draw(DrawReason::Moves75)) => self.stats.hit("probe.moves75"),
                    Some(Outcome::Draw(DrawReason::InsufficientMaterial)) => self.stats.hit("probe.insufficient"),
                    Some(Outcome::Draw(DrawReason::Stalemate)) => self.stats.hit("probe.stalemate"),
                    Some(Outcome::Win { .. }) => self.stats.hit("probe.checkmate"),
                    _ => {}
                }
                if count >= 5 && info.pos.clock >= 100 {
                    self.stats.hit("probe.repeat5-with-moves50");
                }
                if count >= 3 && info.pos.clock >= 100 {
                    self.stats.hit("probe.repeat3-with-moves50");
                }
            }
            if self.step % 16 == 0 {
                self.deep_repeat_check()?;
            }
        } else {
            // keep the spy log from growing
            let n = self.spy.verif_repeat().log.borrow().len();
            self.spy_seen = n;
        }
        Ok(())
    }

    /// Every position of the game so far, and recently popped ones, must be counted
    /// exactly as often as they occur in the current history.
    pub fn deep_repeat_check(&mut self) -> Result<(), Violation> {
        if !self.on(C14) {
            return Ok(());
        }
        let len = self.rc.len();
        // every position of a game of ordinary length; an evenly spread sample of a very long one
        let stride = if len > 256 { len / 64 } else { 1 };
        for i in (0..=len).step_by(stride.max(1)) {
            let want = self.rc.count_key(&self.rc.keys[i]);
            let got = self.chain.verif_repeat().count(self.rc.expect_board(i));
            if got != want {
                return Err(self.fail(
                    C14,
                    "repeat-count",
                    format!(
                        "position after {} plies ({}) occurs {} times in the history, the repetition table says {}",
                        i,
                        pos_of(self.rc.expect_board(i)).to_fen(),
                        want,
                        got
                    ),
                ));
            }
        }
        for b in &self.popped {
            let want = self.rc.count_key(&key_of(b));
            let got = self.chain.verif_repeat().count(b);
            if got != want {
                return Err(self.fail(
                    C14,
                    "repeat-count",
                    format!(
                        "popped position {} occurs {} times in the history, the repetition table says {}",
                        pos_of(b).to_fen(),
                        want,
                        got
                    ),
                ));
            }
        }
        // by-value table of the lock-step chain == multiset of the history
        let mut want: BTreeMap<PosKey, usize> = BTreeMap::new();
        for k in &self.rc.keys {
            *want.entry(k.clone()).or_insert(0) += 1;
        }
        if self.spy.verif_repeat().map != want {
            return Err(self.fail(
                C14,
                "repeat-calls",
                "multiset kept through the Repeat seam differs from the multiset of positions of the game".into(),
            ));
        }
        self.stats.hit("probe.deep-repeat-check");
        Ok(())
    }

    /// The lock-step chain must have issued exactly these push/pop calls since the
    /// last look (count calls are ignored here).
    fn expect_spy(&mut self, want: &[SpyEv]) -> Result<(), Violation> {
        let log = self.spy.verif_repeat().log.borrow();
        let got: Vec<SpyEv> = log[self.spy_seen.min(log.len())..]
            .iter()
            .filter(|e| !matches!(e, SpyEv::Count(_)))
            .cloned()
            .collect();
        let n = log.len();
        drop(log);
        self.spy_seen = n;
        if self.on(C14) && got != want {
            let g: Vec<String> = got.iter().map(fmt_ev).collect();
            let w: Vec<String> = want.iter().map(fmt_ev).collect();
            return Err(self.fail(
                C14,
                "repeat-calls",
                format!("repetition table saw [{}], the history implies [{}]", g.join(", "), w.join(", ")),
            ));
        }
        Ok(())
    }

    // -------------------------------------------------------------- push

    pub(crate) fn judge_accept(&mut self, den: &Denot, applied: &Move, ml: &MoveLike, pos: &Pos) -> Result<(), Violation> {
        if self.on(C02) {
            let r = rmove_of(applied);
            if !den.allowed.contains(&r) {
                return Err(self.fail(
                    C02,
                    "accept-not-legal",
                    format!(
                        "{} was accepted at {} and applied as {}, which is not {} (model has {} such moves)",
                        ml.pretty(),
                        pos.to_fen(),
                        fmt_rmove(&r),
                        if den.known { "a legal move it denotes" } else { "a legal move" },
                        den.allowed.len()
                    ),
                ));
            }
        }
        Ok(())
    }

    pub(crate) fn judge_refuse(&mut self, den: &Denot, ml: &MoveLike, pos: &Pos, err: &str) -> Result<(), Violation> {
        if self.on(C02) && den.must_accept {
            return Err(self.fail(
                C02,
                "legal-refused",
                format!(
                    "{} denotes the legal move {} at {} but was refused: {}",
                    ml.pretty(),
                    fmt_rmove(&den.allowed[0]),
                    pos.to_fen(),
                    err
                ),
            ));
        }
        Ok(())
    }

    /// Brings the reference in step after the chain accepted `applied`.
    fn ref_accept(&mut self, applied: Move, observed: bool) -> Result<(), Violation> {
        let prev = self.rc.replayed.last().unwrap().clone();
        let next = match crate::lib_api::reapply(&prev, applied) {
            Ok(b) => b,
            Err(e) => {
                if self.on(C13) {
                    return Err(self.fail(
                        C13,
                        "refinement",
                        format!(
                            "accepted move {} cannot be replayed from {} with Board::make_move: {}",
                            applied,
                            pos_of(&prev).to_fen(),
                            e
                        ),
                    ));
                }
                self.stats.hit("note.replay-fallback");
                if self.blind {
                    self.poisoned = true;
                }
                self.chain.last().clone()
            }
        };
        self.rc.moves.push(applied);
        self.rc.san.push(None);
        if observed {
            let b = self.chain.last().clone();
            self.rc.keys.push(key_of(&b));
            self.rc.seen.push(Some(b));
        } else {
            self.rc.keys.push(key_of(&next));
            self.rc.seen.push(None);
        }
        self.rc.replayed.push(next);
        Ok(())
    }

    /// Rare-condition probes that need the position the move was made from.
    pub(crate) fn note_geometry(&mut self, pos: &Pos, m: &RMove) {
        let promo = m.promo_piece().is_some();
        let capture = pos.sq[m.dst as usize] != 0;
        if promo && capture {
            self.stats.hit("probe.promotion-with-capture");
            if matches!(m.dst, 0 | 7 | 56 | 63) && rm::piece_of(pos.sq[m.dst as usize]) == rm::R {
                self.stats.hit("probe.promotion-capturing-rook-on-home-square");
            }
        }
        if m.kind == rm::K_EP && (m.src % 8 == 0 || m.src % 8 == 7 || m.dst % 8 == 0 || m.dst % 8 == 7) {
            self.stats.hit("probe.ep-on-edge-file");
        }
        if m.kind == rm::K_CASTLE_K || m.kind == rm::K_CASTLE_Q {
            let (q, k) = if pos.white { (rm::WQ, rm::WK) } else { (rm::BQ, rm::BK) };
            if pos.castling[q] != pos.castling[k] {
                self.stats.hit("probe.castling-with-a-single-right");
            }
        }
        if capture && matches!(m.dst, 0 | 7 | 56 | 63) && rm::piece_of(pos.sq[m.dst as usize]) == rm::R {
            let i = match m.dst {
                56 => rm::WQ,
                63 => rm::WK,
                0 => rm::BQ,
                _ => rm::BK,
            };
            if pos.castling[i] {
                self.stats.hit("probe.capture-of-home-rook-that-still-had-its-right");
            }
        }
    }

    fn note_move_kind(&mut self, m: &Move, made: bool) {
        use owlchess::MoveKind::*;
        let k = match (m.kind(), made) {
            (CastlingKingside, true) => "probe.castle-k-made",
            (CastlingKingside, false) => "probe.castle-k-undone",
            (CastlingQueenside, true) => "probe.castle-q-made",
            (CastlingQueenside, false) => "probe.castle-q-undone",
            (Enpassant, true) => "probe.ep-made",
            (Enpassant, false) => "probe.ep-undone",
            (PawnDouble, true) => "probe.double-made",
            (PawnDouble, false) => "probe.double-undone",
            (PromoteKnight | PromoteBishop | PromoteRook | PromoteQueen, true) => "probe.promo-made",
            (PromoteKnight | PromoteBishop | PromoteRook | PromoteQueen, false) => "probe.promo-undone",
            (Null, true) => "probe.null-made",
            (Null, false) => "probe.null-undone",
            _ => return,
        };
        self.stats.hit(k);
    }

    fn op_push(&mut self, ml: &MoveLike) -> R {
        if self.rc.outcome.is_some() || self.rc.len() >= MAX_CHAIN_LEN {
            return Ok(Exec::Skipped);
        }
        let info = self.info().clone();
        if !crate::lib_api::unsafe_like_ok(&info, self.chain.last(), ml) {
            return Ok(Exec::Skipped);
        }
        if let MoveLike::TryUnchecked(r) = ml {
            if r.kind == rm::K_NULL {
                // TryUnchecked(NULL): accepted exactly when the mover is not in check (seeded change
                // S-C13-23: a legality pre-test that masks a checker standing on a8, the null move's
                // nominal square). Chains holding a null move are kept out of C17 and C02 runs (see
                // `op_push_unchecked`).
                if self.on(C17) || self.on(C02) {
                    return Ok(Exec::Skipped);
                }
                self.stats.hit(if info.in_check { "probe.null-move-offered-while-in-check" } else { "probe.null-move-pushed-into-chain" });
            }
        }
        let den = denote(&info.pos, &info.legal, ml);
        let before = Full::of(self.chain.last());
        let len0 = self.rc.len();
        let count0 = self.chain.verif_repeat().count(self.chain.last());
        let res = match push_like(&mut self.chain, ml) {
            Some(r) => r,
            None => return Ok(Exec::Skipped),
        };
        let spy_res = push_like(&mut self.spy, ml).expect("constructible for one chain, not for the other");
        if res.is_ok() != spy_res.is_ok() {
            // the same generic code with the same logical history behaves differently for the two
            // repetition-table types: the library keeps hidden per-object state. Nothing can be
            // judged from here on in this run.
            self.stats.hit("note.run-stopped-at-divergence-of-the-lock-step-chain");
            self.poisoned = true;
            return Ok(Exec::Done);
        }
        match res {
            Err(e) => {
                self.stats.hit("op.push-refused");
                self.stats.hit(crate::world_search::classify_refusal(ml, &info));
                let undo_path = World::names_pseudo_legal(&info, ml);
                self.refusal_is_atomic(&before, len0, count0, &format!("refused push of {}", ml.pretty()), undo_path)?;
                self.judge_refuse(&den, ml, &info.pos, &e)?;
                self.expect_spy(&[])?;
                if info.pseudo.iter().any(|p| !info.legal.contains(p)) {
                    if let MoveLike::Move(m) = ml {
                        if info.pseudo.contains(m) {
                            self.stats.hit("probe.rollback-king-exposing");
                        }
                    }
                }
            }
            Ok(()) => {
                self.stats.hit("op.push-accepted");
                if len0 + 1 == 256 {
                    self.stats.hit("probe.chain-longer-than-255-plies");
                } else if len0 + 1 == 129 {
                    self.stats.hit("probe.chain-longer-than-128-plies");
                }
                self.invalidate();
                if self.chain.len() != len0 + 1 {
                    if self.on(C13) {
                        return Err(self.fail(
                            C13,
                            "refinement",
                            format!("one accepted push changed len() from {} to {}", len0, self.chain.len()),
                        ));
                    }
                    return Ok(Exec::Done);
                }
                let applied = self.chain.get(len0);
                self.judge_accept(&den, &applied, ml, &info.pos)?;
                if let MoveLike::Move(m) = ml {
                    if self.on(C13) && rmove_of(&applied) != *m {
                        return Err(self.fail(
                            C13,
                            "refinement",
                            format!("pushed {} but {} was recorded", fmt_rmove(m), fmt_rmove(&rmove_of(&applied))),
                        ));
                    }
                }
                self.note_move_kind(&applied, true);
                if applied != Move::NULL {
                    self.note_geometry(&info.pos, &rmove_of(&applied));
                }
                if self.last_owner == 1 {
                    self.stats.hit("probe.push-right-after-pop");
                }
                self.ref_accept(applied, true)?;
                let k = self.rc.keys.last().unwrap().clone();
                self.expect_spy(&[SpyEv::Push(k)])?;
                self.last_owner = if applied.kind() == owlchess::MoveKind::Simple { 0 } else { 2 };
                return Ok(Exec::Done);
            }
        }
        if self.last_owner == 1 {
            self.stats.hit("probe.refusal-right-after-pop");
        } else if self.last_owner == 2 {
            self.stats.hit("probe.refusal-right-after-special-move");
        }
        Ok(Exec::Done)
    }

    /// The unsafe fast path of the chain, used within its contract: the move is legal.
    fn op_push_unchecked(&mut self, m: &RMove) -> R {
        if self.rc.outcome.is_some() || self.rc.len() >= MAX_CHAIN_LEN {
            return Ok(Exec::Skipped);
        }
        let info = self.info().clone();
        let mv = if m.kind == rm::K_NULL {
            // the null move is within push_unchecked's contract when the mover is not in check. A
            // chain holding one cannot be replayed from its UCI text nor printed in SAN by design,
            // so null moves are never pushed while C17 is judged; nor under C02 (unsafe route).
            if self.on(C17) || self.on(C02) || info.in_check || self.chain.last().is_check() {
                return Ok(Exec::Skipped);
            }
            self.stats.hit("probe.null-move-pushed-into-chain");
            Move::NULL
        } else {
            if !info.legal.contains(m) {
                return Ok(Exec::Skipped);
            }
            let mv = match crate::full::move_of(m) {
                Some(mv) => mv,
                None => return Ok(Exec::Skipped),
            };
            if mv.validate(self.chain.last()).is_err() {
                return Ok(Exec::Skipped);
            }
            mv
        };
        let len0 = self.rc.len();
        unsafe {
            self.chain.push_unchecked(mv);
            self.spy.push_unchecked(mv);
        }
        self.stats.hit("op.push-unchecked");
        self.invalidate();
        if self.chain.len() != len0 + 1 || self.chain.get(len0) != mv {
            if self.on(C13) {
                return Err(self.fail(C13, "refinement", format!("push_unchecked({}) did not record exactly that move", mv)));
            }
            return Ok(Exec::Done);
        }
        self.note_move_kind(&mv, true);
        self.ref_accept(mv, true)?;
        let k = self.rc.keys.last().unwrap().clone();
        self.expect_spy(&[SpyEv::Push(k)])?;
        Ok(Exec::Done)
    }

    /// Is this value one whose refusal goes through the library's make -> test king ->
    /// un-make path, i.e. does it name a pseudo-legal (king-exposing) move? Only then is a
    /// botched rollback an *undo* defect (C04); otherwise the library had no business
    /// touching the board at all, which is C02's and C13's concern.
    pub(crate) fn names_pseudo_legal(info: &Info, ml: &MoveLike) -> bool {
        match ml {
            // (a refused TryUnchecked(NULL) has been through make and un-make of the null move)
            MoveLike::TryUnchecked(m) if m.kind == rm::K_NULL => true,
            MoveLike::Move(m) | MoveLike::TryUnchecked(m) => info.pseudo.contains(m),
            MoveLike::UciMove { src, dst, promo } => info
                .pseudo
                .iter()
                .any(|p| p.src == *src && p.dst == *dst && p.promo_piece() == *promo),
            MoveLike::UciStr(s) => match crate::denote::parse_known_uci(s) {
                Some(Some((src, dst, promo))) => info
                    .pseudo
                    .iter()
                    .any(|p| p.src == src && p.dst == dst && p.promo_piece() == promo),
                _ => false,
            },
            _ => false,
        }
    }

    /// Push during a blind burst: the library call and its result only; the position the move
    /// is judged against is the reference replay, and nothing is read back from the chain
    /// except - when the value does not determine the move - the one recorded move.
    fn op_push_blind(&mut self, ml: &MoveLike) -> R {
        if self.rc.outcome.is_some() || self.rc.len() >= MAX_CHAIN_LEN {
            return Ok(Exec::Skipped);
        }
        let info = self.info().clone();
        let basis = self.rc.replayed.last().unwrap().clone();
        if !crate::lib_api::unsafe_like_ok(&info, &basis, ml) {
            return Ok(Exec::Skipped);
        }
        let den = denote(&info.pos, &info.legal, ml);
        let len0 = self.rc.len();
        let res = match push_like(&mut self.chain, ml) {
            Some(r) => r,
            None => return Ok(Exec::Skipped),
        };
        let spy_res = push_like(&mut self.spy, ml).expect("constructible for one chain, not for the other");
        if res.is_ok() != spy_res.is_ok() {
            // the same generic code with the same logical history behaves differently for the two
            // repetition-table types: the library keeps hidden per-object state. Nothing can be
            // judged from here on in this run.
            self.stats.hit("note.run-stopped-at-divergence-of-the-lock-step-chain");
            self.poisoned = true;
            return Ok(Exec::Done);
        }
        match res {
            Err(e) => {
                self.stats.hit("op.push-refused-blind");
                self.stats.hit(crate::world_search::classify_refusal(ml, &info));
                self.judge_refuse(&den, ml, &info.pos, &e)?;
                self.expect_spy(&[])?;
            }
            Ok(()) => {
                self.stats.hit("op.push-accepted-blind");
                self.invalidate();
                let applied = if den.known && den.allowed.len() == 1 {
                    match crate::full::move_of(&den.allowed[0]) {
                        Some(m) => m,
                        None => self.chain.get(len0),
                    }
                } else {
                    self.chain.get(len0)
                };
                self.judge_accept(&den, &applied, ml, &info.pos)?;
                self.note_move_kind(&applied, true);
                self.ref_accept(applied, false)?;
                let k = self.rc.keys.last().unwrap().clone();
                self.expect_spy(&[SpyEv::Push(k)])?;
            }
        }
        Ok(Exec::Done)
    }

    fn op_pop_blind(&mut self) -> R {
        let len0 = self.rc.len();
        if len0 == 0 {
            return Ok(Exec::Skipped);
        }
        if self.rc.outcome.is_some() && !self.on(C13) {
            // whether the pop clears the outcome is C13's business; without reading it back the
            // reference could not follow the library, so this combination is not done blind
            return Ok(Exec::Skipped);
        }
        let left_key = self.rc.keys[len0].clone();
        let left = self.rc.expect_board(len0).clone();
        let got = self.chain.pop();
        let spy_got = self.spy.pop();
        if got.is_some() != spy_got.is_some() {
            self.stats.hit("note.run-stopped-at-divergence-of-the-lock-step-chain");
            self.poisoned = true;
            return Ok(Exec::Done);
        }
        self.stats.hit("op.pop-blind");
        self.invalidate();
        let want_mv = self.rc.moves[len0 - 1];
        if self.on(C13) && got != Some(want_mv) {
            return Err(self.fail(
                C13,
                "refinement",
                format!("pop() returned {:?}, the latest accepted move is {}", got.map(|m| m.to_string()), want_mv),
            ));
        }
        self.note_move_kind(&want_mv, false);
        self.rc.truncate(len0 - 1);
        // the statement says a pop clears the stored outcome; the next observation checks it
        self.rc.outcome = None;
        if self.popped.len() >= 6 {
            self.popped.remove(0);
        }
        self.popped.push(left);
        self.expect_spy(&[SpyEv::Pop(left_key)])?;
        Ok(Exec::Done)
    }

    fn refusal_is_atomic(&mut self, before: &Full, len0: usize, count0: usize, what: &str, undo_path: bool) -> Result<(), Violation> {
        let after = Full::of(self.chain.last());
        if let Some(d) = before.diff(&after) {
            for p in [C02, C13, C04] {
                if p == C04 && !undo_path {
                    continue;
                }
                if self.on(p) {
                    return Err(self.fail(
                        p,
                        "atomicity",
                        format!("{} changed the position (before vs after): {}", what, d),
                    ));
                }
            }
        }
        if self.chain.len() != len0 {
            for p in [C13, C02] {
                if self.on(p) {
                    return Err(self.fail(
                        p,
                        "atomicity",
                        format!("{} changed len() from {} to {}", what, len0, self.chain.len()),
                    ));
                }
            }
        }
        let count1 = self.chain.verif_repeat().count(self.chain.last());
        if count1 != count0 {
            for p in [C13, C14] {
                if self.on(p) {
                    return Err(self.fail(
                        p,
                        "atomicity",
                        format!("{} changed the repetition count of the current position from {} to {}", what, count0, count1),
                    ));
                }
            }
        }
        Ok(())
    }

    fn op_push_list(&mut self, text: &str) -> R {
        if self.rc.outcome.is_some() {
            return Ok(Exec::Skipped);
        }
        let tokens: Vec<&str> = text.split_ascii_whitespace().collect();
        if self.rc.len() + tokens.len() > MAX_CHAIN_LEN {
            return Ok(Exec::Skipped);
        }
        let len0 = self.rc.len();
        let res = self.chain.push_uci_list(text);
        let spy_res = self.spy.push_uci_list(text);
        if res.is_ok() != spy_res.is_ok() {
            self.stats.hit("note.run-stopped-at-divergence-of-the-lock-step-chain");
            self.poisoned = true;
            return Ok(Exec::Done);
        }
        self.invalidate();
        self.stats.hit("op.push-uci-list");
        let applied = self.chain.len().saturating_sub(len0);
        let claimed = match &res {
            Ok(()) => tokens.len(),
            Err(e) => e.pos,
        };
        if self.on(C13) && (self.chain.len() < len0 || applied != claimed) {
            return Err(self.fail(
                C13,
                "partial-list",
                format!(
                    "push_uci_list({:?}) reports {} moves applied ({}), the chain grew by {}",
                    text,
                    claimed,
                    if res.is_ok() { "Ok" } else { "Err.pos" },
                    self.chain.len() as i64 - len0 as i64
                ),
            ));
        }
        // Walk the tokens in the reference: each applied move must be denoted by its token
        // at the position it was applied to; the first token not applied must not be one
        // that had to be accepted.
        let mut spy_want = Vec::new();
        for i in 0..applied.min(tokens.len()) {
            let b = self.rc.replayed.last().unwrap().clone();
            let info = Info::of(&b);
            let ml = MoveLike::UciStr(tokens[i].to_string());
            let den = denote(&info.pos, &info.legal, &ml);
            let mv = self.chain.get(len0 + i);
            self.judge_accept(&den, &mv, &ml, &info.pos)?;
            self.note_move_kind(&mv, true);
            let observed = i + 1 == applied;
            self.ref_accept(mv, observed)?;
            spy_want.push(SpyEv::Push(self.rc.keys.last().unwrap().clone()));
        }
        if self.rc.len() != self.chain.len() {
            // more moves appeared than tokens given: resynchronise so that later
            // invariants report it under the right property
            if self.on(C13) {
                return Err(self.fail(C13, "partial-list", "more moves were applied than tokens given".into()));
            }
            return Ok(Exec::Done);
        }
        if let Err(e) = &res {
            // (only when the reported position is the token that was actually refused; a wrong
            // position is C13's business and is reported there)
            if applied < tokens.len() && applied == claimed {
                let b = self.rc.replayed.last().unwrap().clone();
                let info = Info::of(&b);
                let ml = MoveLike::UciStr(tokens[applied].to_string());
                let den = denote(&info.pos, &info.legal, &ml);
                self.judge_refuse(&den, &ml, &info.pos, &e.to_string())?;
                if applied > 0 {
                    self.stats.hit("fault.partial-list");
                } else {
                    self.stats.hit("fault.partial-list-k0");
                }
            }
        }
        self.expect_spy(&spy_want)?;
        Ok(Exec::Done)
    }

    // -------------------------------------------------------------- pop

    fn op_pop(&mut self) -> R {
        let len0 = self.rc.len();
        let before = Full::of(self.chain.last());
        let left = self.chain.last().clone();
        let left_key = self.rc.keys[len0].clone();
        let got = self.chain.pop();
        let spy_got = self.spy.pop();
        if got.is_some() != spy_got.is_some() {
            self.stats.hit("note.run-stopped-at-divergence-of-the-lock-step-chain");
            self.poisoned = true;
            return Ok(Exec::Done);
        }
        if len0 == 0 {
            self.stats.hit("op.pop-empty");
            if self.on(C13) {
                if got.is_some() {
                    return Err(self.fail(C13, "refinement", "pop() on an empty chain returned a move".into()));
                }
                if let Some(d) = before.diff(&Full::of(self.chain.last())) {
                    return Err(self.fail(C13, "refinement", format!("pop() on an empty chain changed the position: {}", d)));
                }
            }
            // The statement does not constrain the stored outcome here: follow the library.
            self.rc.outcome = *self.chain.outcome();
            self.expect_spy(&[])?;
            return Ok(Exec::Done);
        }
        self.stats.hit("op.pop");
        self.invalidate();
        self.last_owner = 1;
        match self.rc.count_key(&left_key) {
            2 => self.stats.hit("probe.pop-of-position-counted-twice"),
            n if n >= 3 => self.stats.hit("probe.pop-of-position-counted-3-or-more"),
            _ => {}
        }
        let want_mv = self.rc.moves[len0 - 1];
        if self.on(C13) {
            if got != Some(want_mv) {
                return Err(self.fail(
                    C13,
                    "refinement",
                    format!("pop() returned {:?}, the latest accepted move is {}", got.map(|m| m.to_string()), want_mv),
                ));
            }
            if self.chain.outcome().is_some() {
                return Err(self.fail(C13, "refinement", "pop() did not clear the stored outcome".into()));
            }
        }
        self.note_move_kind(&want_mv, false);
        let after = Full::of(self.chain.last());
        if let Some(snap) = &self.rc.seen[len0 - 1] {
            if let Some(d) = after.diff(&Full::of(snap)) {
                // C04 speaks about semilegal moves: blame it only if the popped move was one
                let was_pseudo = pos_of(snap).pseudo_legal().contains(&rmove_of(&want_mv));
                for p in [C04, C13] {
                    if p == C04 && !was_pseudo {
                        continue;
                    }
                    if self.on(p) {
                        return Err(self.fail(
                            p,
                            "undo-mismatch",
                            format!(
                                "pop() of {} did not restore the position that preceded the push (now vs then): {}",
                                want_mv, d
                            ),
                        ));
                    }
                }
            }
        }
        self.rc.truncate(len0 - 1);
        self.rc.outcome = None;
        if !self.on(C13) {
            // keep following the library where C13 is not being judged
            self.rc.outcome = *self.chain.outcome();
        }
        if self.popped.len() >= 6 {
            self.popped.remove(0);
        }
        self.popped.push(left);
        self.expect_spy(&[SpyEv::Pop(left_key)])?;
        Ok(Exec::Done)
    }

    // -------------------------------------------------------------- outcome

    fn op_set_auto(&mut self, f: u8) -> R {
        if self.rc.outcome.is_some() {
            return Ok(Exec::Skipped);
        }
        let filter = FILTERS[(f as usize) % 3];
        let calc = self.chain.calc_outcome();
        let ret = self.chain.set_auto_outcome(filter);
        let spy_ret = self.spy.set_auto_outcome(filter);
        self.stats.hit("op.set-auto-outcome");
        if self.on(C14) {
            let stored = *self.chain.outcome();
            if ret != stored {
                return Err(self.fail(
                    C14,
                    "auto-outcome",
                    format!("set_auto_outcome returned {:?} but outcome() is {:?}", ret, stored),
                ));
            }
            let want = match calc {
                Some(o) => match class_passes(&o, filter) {
                    Some(true) => Some(Some(o)),
                    Some(false) => Some(None),
                    None => None, // calc_outcome returned something outside the three classes; judged elsewhere
                },
                None => Some(None),
            };
            if let Some(w) = want {
                if stored != w {
                    return Err(self.fail(
                        C14,
                        "auto-outcome",
                        format!(
                            "calculated outcome {:?}, filter {:?}: expected stored outcome {:?}, got {:?}",
                            calc, filter, w, stored
                        ),
                    ));
                }
            }
            if spy_ret != ret {
                return Err(self.fail(
                    C14,
                    "auto-outcome",
                    format!("by-hash chain stored {:?}, by-value chain stored {:?}", ret, spy_ret),
                ));
            }
            if stored.is_some() {
                self.stats.hit("probe.auto-outcome-stored");
            } else if calc.is_some() {
                self.stats.hit("probe.auto-outcome-filtered");
            }
        }
        self.rc.outcome = *self.chain.outcome();
        if *self.spy.outcome() != self.rc.outcome {
            self.spy.reset_outcome(self.rc.outcome);
        }
        Ok(Exec::Done)
    }

    // -------------------------------------------------------------- fork / eq / rebuild

    /// A chain built by `from_fen` from text with *stale fields* - castling rights whose king or
    /// rook is not at home, an en-passant field nothing can use - that the validation gate
    /// rewrites: an unusual but legal provenance (seeded changes S-C13-22 and S-C17-22 record the
    /// start position as written instead of as validated). Only texts that `Board::from_fen`
    /// brings back to exactly the run's start position are used, so the game is the same game.
    /// Judged on the fresh object alone and by the statements' own words: C13 - with no move
    /// accepted the current position *is* the recorded start, and the chain equals
    /// `MoveChain::new` of the same start; C17 - the UCI list replayed from `startpos()` rebuilds
    /// an equal chain. The run's own chain is not replaced.
    fn stale_fen_construct_check(&mut self, start: &Board) -> Result<(), Violation> {
        if !self.on(C13) && !self.on(C17) {
            return Ok(());
        }
        let clean = pos_of(start);
        let clean_text = clean.to_fen();
        let file = clean.sq.iter().map(|&c| c as usize).sum::<usize>() % 8;
        let mark = Some(((if clean.white { 3 } else { 4 }) * 8 + file) as u8);
        let mut both = clean.clone();
        both.castling = [true; 4];
        let rights_only = both.clone();
        if both.ep.is_none() {
            both.ep = mark;
        }
        let mut ep_only = clean.clone();
        if ep_only.ep.is_none() {
            ep_only.ep = mark;
        }
        for cand in [both, rights_only, ep_only] {
            let text = cand.to_fen();
            if text == clean_text {
                continue;
            }
            match Board::from_fen(&text) {
                Ok(b) if *b.raw() == self.rc.start => {}
                _ => continue, // refused, or the extra fields meant something: another game
            }
            let fresh = match MoveChain::from_fen(&text) {
                Ok(c) => c,
                Err(_) => continue,
            };
            self.stats.hit("probe.chain-from-fen-with-stale-fields");
            if self.on(C13) {
                if *fresh.startpos() != *fresh.last().raw() {
                    return Err(self.fail(
                        C13,
                        "refinement",
                        format!(
                            "MoveChain::from_fen({:?}): no move was accepted, yet the recorded start position {} is not the current position {}",
                            text,
                            pos_of_raw(fresh.startpos()).to_fen(),
                            pos_of(fresh.last()).to_fen()
                        ),
                    ));
                }
                let plain = MoveChain::new(start.clone());
                if !(fresh == plain) || fresh != plain {
                    return Err(self.fail(
                        C13,
                        "equality",
                        format!("MoveChain::from_fen({:?}) and MoveChain::new of the board the same text parses to have equal start positions, move lists and outcomes but do not compare equal", text),
                    ));
                }
            }
            if self.on(C17) {
                let uci = fresh.uci().to_string();
                let rebuilt = Board::try_from(*fresh.startpos())
                    .map_err(|e| e.to_string())
                    .and_then(|b| MoveChain::from_uci_list(b, &uci).map_err(|e| e.to_string()));
                match rebuilt {
                    Ok(r) if r == fresh => {}
                    Ok(_) => {
                        return Err(self.fail(
                            C17,
                            "uci-roundtrip",
                            format!("chain built by MoveChain::from_fen({:?}): its UCI list {:?} replayed from startpos() rebuilds a chain that does not compare equal", text, uci),
                        ))
                    }
                    Err(e) => {
                        return Err(self.fail(
                            C17,
                            "uci-roundtrip",
                            format!("chain built by MoveChain::from_fen({:?}): its UCI list {:?} does not replay from startpos(): {}", text, uci, e),
                        ))
                    }
                }
            }
            break;
        }
        Ok(())
    }

    /// The same empty chain through another constructor; everything observable must be the
    /// same whichever constructor produced the object.
    fn op_construct(&mut self, k: u8) -> R {
        if self.rc.len() != 0 || self.rc.outcome.is_some() {
            return Ok(Exec::Skipped);
        }
        let start = match Board::try_from(self.rc.start) {
            Ok(b) => b,
            Err(_) => return Ok(Exec::Skipped),
        };
        let is_initial = self.rc.start == RawBoard::initial();
        if k % 5 == 1 {
            self.stale_fen_construct_check(&start)?;
        }
        let fresh: MoveChain = match k % 5 {
            0 => MoveChain::new(start.clone()),
            1 => match MoveChain::from_fen(&pos_of(&start).to_fen()) {
                Ok(c) => c,
                Err(_) => return Ok(Exec::Skipped),
            },
            2 => match MoveChain::from_uci_list(start.clone(), "") {
                Ok(c) => c,
                Err(_) => return Ok(Exec::Skipped),
            },
            3 if is_initial => MoveChain::new_initial(),
            4 if is_initial => MoveChain::default(),
            _ => return Ok(Exec::Skipped),
        };
        if *fresh.startpos() != self.rc.start {
            // the constructor went through text and the text round trip is not this property's
            // business: keep the chain we have
            return Ok(Exec::Skipped);
        }
        let spy: BaseMoveChain<SpyRepeat> = match k % 5 {
            2 => match BaseMoveChain::from_uci_list(start.clone(), "") {
                Ok(c) => c,
                Err(_) => return Ok(Exec::Skipped),
            },
            3 if is_initial => BaseMoveChain::new_initial(),
            4 if is_initial => BaseMoveChain::default(),
            _ => BaseMoveChain::new(start.clone()),
        };
        if self.on(C13) && !(fresh == self.chain) {
            return Err(self.fail(
                C13,
                "equality",
                format!("an empty chain built through constructor {} does not compare equal to MoveChain::new of the same start", k % 5),
            ));
        }
        self.chain = fresh;
        self.spy = spy;
        self.spy_seen = 0;
        self.invalidate();
        self.stats.hit("op.construct");
        self.expect_spy(&[SpyEv::Push(self.rc.keys[0].clone())])?;
        Ok(Exec::Done)
    }

    /// Mutates an original that was forked off earlier; its reference summary follows.
    fn op_parked_step(&mut self, i: usize, kind: u8, x: usize) -> R {
        if i >= self.parked.len() {
            return Ok(Exec::Skipped);
        }
        match kind % 3 {
            0 => {
                if self.parked[i].moves.is_empty() {
                    return Ok(Exec::Skipped);
                }
                let got = self.parked[i].chain.pop();
                let want = self.parked[i].moves.pop();
                self.parked[i].outcome = None;
                if self.on(C13) && (got != want || self.parked[i].chain.outcome().is_some()) {
                    return Err(self.fail(C13, "refinement", "pop() on a kept original did not return its last move / clear its outcome".into()));
                }
            }
            1 => {
                if self.parked[i].outcome.is_some() || self.parked[i].moves.len() >= MAX_CHAIN_LEN {
                    return Ok(Exec::Skipped);
                }
                let info = Info::of(self.parked[i].chain.last());
                if info.legal.is_empty() {
                    return Ok(Exec::Skipped);
                }
                let m = info.legal[x % info.legal.len()];
                let mv = match crate::full::move_of(&m) {
                    Some(mv) => mv,
                    None => return Ok(Exec::Skipped),
                };
                match self.parked[i].chain.push(mv) {
                    Ok(()) => self.parked[i].moves.push(mv),
                    Err(e) => {
                        if self.on(C02) {
                            return Err(self.fail(C02, "legal-refused", format!("legal move {} refused on a kept original: {}", mv, e)));
                        }
                        return Ok(Exec::Done);
                    }
                }
            }
            _ => {
                let o = if self.parked[i].outcome.is_some() { None } else { Some(Outcome::Draw(DrawReason::Agreement)) };
                self.parked[i].chain.reset_outcome(o);
                self.parked[i].outcome = o;
            }
        }
        self.parked[i].last = Full::of(self.parked[i].chain.last());
        self.stats.hit("op.parked-step");
        Ok(Exec::Done)
    }

    fn op_fork(&mut self, kind: u8) -> R {
        if self.parked.len() >= 3 {
            return Ok(Exec::Skipped);
        }
        let (c, s) = if kind % 2 == 0 {
            (self.chain.clone(), self.spy.clone())
        } else {
            // clone_from into objects that already hold another game
            let other = if self.rc.start == RawBoard::initial() {
                match crate::refmodel::Pos::from_fen("4k3/8/8/8/8/8/8/4K2R w K - 5 9").and_then(|p| crate::starts::admit(&p)) {
                    Some(b) => b,
                    None => return Ok(Exec::Skipped),
                }
            } else {
                crate::starts::initial()
            };
            let mut c = MoveChain::new(other.clone());
            let mut s = BaseMoveChain::<SpyRepeat>::new(other);
            c.set_outcome(Outcome::Draw(DrawReason::Unknown));
            c.clone_from(&self.chain);
            s.clone_from(&self.spy);
            self.stats.hit("op.fork-clone-from");
            (c, s)
        };
        if self.on(C13) && !(c == self.chain && self.chain == c) {
            return Err(self.fail(
                C13,
                "equality",
                format!("a {} does not compare equal to its original", if kind % 2 == 0 { "clone" } else { "chain overwritten with clone_from" }),
            ));
        }
        if self.on(C17) {
            // the statement's own round trip, on the copy itself: whatever route produced a chain,
            // its UCI list replayed from its startpos() rebuilds an equal chain (seeded change
            // S-C17-23: a clone_from that keeps the target's start position)
            let text = c.uci().to_string();
            let rebuilt = Board::try_from(*c.startpos())
                .map_err(|e| e.to_string())
                .and_then(|b| MoveChain::from_uci_list(b, &text).map_err(|e| e.to_string()));
            let what = if kind % 2 == 0 { "clone" } else { "chain overwritten with clone_from" };
            match rebuilt {
                Ok(mut r) => {
                    r.reset_outcome(*c.outcome());
                    if !(r == c) {
                        return Err(self.fail(C17, "uci-roundtrip", format!("a {}: its UCI list {:?} replayed from its startpos() rebuilds a chain that does not compare equal", what, text)));
                    }
                }
                Err(e) => {
                    return Err(self.fail(C17, "uci-roundtrip", format!("a {}: its UCI list {:?} does not replay from its startpos(): {}", what, text, e)));
                }
            }
        }
        let old = std::mem::replace(&mut self.chain, c);
        self.spy = s;
        self.spy_seen = self.spy.verif_repeat().log.borrow().len();
        self.invalidate();
        self.parked.push(Parked {
            moves: self.rc.moves.clone(),
            outcome: self.rc.outcome,
            last: Full::of(old.last()),
            chain: old,
        });
        self.stats.hit("op.fork");
        Ok(Exec::Done)
    }

    fn rebuild_from_moves(&mut self, start: RawBoard, moves: &[Move], outcome: Option<Outcome>, same_game: bool) -> Result<Option<MoveChain>, Violation> {
        let b = match Board::try_from(start) {
            Ok(b) => b,
            Err(_) => return Ok(None),
        };
        let mut c = MoveChain::new(b);
        for (i, m) in moves.iter().enumerate() {
            if let Err(e) = crate::lib_api::repush(&mut c, *m) {
                if self.on(C13) && same_game {
                    return Err(self.fail(
                        C13,
                        "rebuild",
                        format!("re-pushing accepted move #{} ({}) into a fresh chain is refused: {}", i, m, e),
                    ));
                }
                return Ok(None);
            }
        }
        c.reset_outcome(outcome);
        Ok(Some(c))
    }

    fn op_eq_twin(&mut self, v: u16) -> R {
        if !self.on(C13) {
            return Ok(Exec::Skipped);
        }
        let mut start = self.rc.start;
        let mut moves = self.rc.moves.clone();
        let mut outcome = self.rc.outcome;
        let seed = (v / 11) as usize;
        let mut replay_loosely = false;
        if v % 11 == 10 {
            // against an original that was forked off earlier and has been kept alive since
            if self.parked.is_empty() {
                return Ok(Exec::Skipped);
            }
            let i = seed % self.parked.len();
            let want = self.parked[i].moves == self.rc.moves && self.parked[i].outcome == self.rc.outcome;
            let got1 = self.chain == self.parked[i].chain;
            let got2 = self.parked[i].chain == self.chain;
            if got1 == (self.chain != self.parked[i].chain) || got2 == (self.parked[i].chain != self.chain) {
                return Err(self.fail(C13, "equality", "== and != give the same answer for a chain and the original it was cloned from".into()));
            }
            self.stats.hit(if want { "op.eq-original-equal" } else { "op.eq-original-diverged" });
            if got1 != want || got2 != want {
                return Err(self.fail(
                    C13,
                    "equality",
                    format!(
                        "chain == original it was cloned from gives {}/{} but their moves/outcomes are {}",
                        got1,
                        got2,
                        if want { "equal" } else { "not equal" }
                    ),
                ));
            }
            return Ok(Exec::Done);
        }
        match v % 11 {
            0 => {}
            1 => {
                if moves.pop().is_none() {
                    return Ok(Exec::Skipped);
                }
            }
            2 => {
                outcome = match outcome {
                    None => Some(Outcome::Draw(DrawReason::Agreement)),
                    Some(Outcome::Draw(DrawReason::Agreement)) => Some(Outcome::Draw(DrawReason::Unknown)),
                    Some(_) => None,
                };
            }
            3 => {
                // same game but a different last move
                let last = match moves.pop() {
                    Some(m) => m,
                    None => return Ok(Exec::Skipped),
                };
                let b = self.rc.replayed[moves.len()].clone();
                let info = Info::of(&b);
                let alt = info.legal.iter().find(|m| **m != rmove_of(&last)).and_then(crate::full::move_of);
                match alt {
                    Some(a) => moves.push(a),
                    None => return Ok(Exec::Skipped),
                }
            }
            4 => {
                start.move_number = if start.move_number < 60000 { start.move_number + 1 } else { start.move_number - 1 };
            }
            5 => {
                start.move_counter = if start.move_counter < 60000 { start.move_counter + 1 } else { start.move_counter - 1 };
            }
            6 => {
                // same squares, one castling right fewer (if the start has any)
                let mut p = crate::full::pos_of_raw(&start);
                match p.castling.iter().position(|c| *c) {
                    Some(i) => p.castling[i] = false,
                    None => return Ok(Exec::Skipped),
                }
                start = crate::full::raw_of_pos(&p);
            }
            7 => {
                // same squares without the en-passant mark (if the start has one)
                if start.ep_source.is_none() {
                    return Ok(Exec::Skipped);
                }
                start.ep_source = None;
            }
            8 => {
                // the same moves in another order: swap two consecutive moves of one side
                // (kept only if the game is still playable that way)
                let n = moves.len();
                if n < 3 {
                    return Ok(Exec::Skipped);
                }
                let k = seed % (n - 2);
                if moves[k] == moves[k + 2] {
                    return Ok(Exec::Skipped);
                }
                moves.swap(k, k + 2);
                replay_loosely = true;
            }
            _ => {
                // one move somewhere in the middle replaced by another legal move, the rest kept
                // (if it can still be played)
                let n = moves.len();
                if n < 2 {
                    return Ok(Exec::Skipped);
                }
                let k = seed % (n - 1);
                let b = self.rc.expect_board(k).clone();
                let info = Info::of(&b);
                let cur = rmove_of(&moves[k]);
                let alts: Vec<RMove> = info.legal.iter().copied().filter(|m| *m != cur).collect();
                if alts.is_empty() {
                    return Ok(Exec::Skipped);
                }
                match crate::full::move_of(&alts[(seed / 7) % alts.len()]) {
                    Some(a) => moves[k] = a,
                    None => return Ok(Exec::Skipped),
                }
                replay_loosely = true;
            }
        }
        let _ = replay_loosely;
        let same_game = start == self.rc.start && moves == self.rc.moves;
        let twin = match self.rebuild_from_moves(start, &moves, outcome, same_game)? {
            Some(t) => t,
            None => return Ok(Exec::Skipped),
        };
        let want = *twin.startpos() == self.rc.start && moves == self.rc.moves && outcome == self.rc.outcome;
        let got1 = self.chain == twin && !(self.chain != twin);
        let got2 = twin == self.chain && !(twin != self.chain);
        if (self.chain == twin) == (self.chain != twin) || (twin == self.chain) == (twin != self.chain) {
            return Err(self.fail(C13, "equality", format!("== and != give the same answer for a chain and its twin (variant {})", v % 11)));
        }
        self.stats.hit(if want { "op.eq-equal" } else { "op.eq-unequal" });
        if got1 != want || got2 != want {
            return Err(self.fail(
                C13,
                "equality",
                format!(
                    "chain == twin gives {}/{} but start/moves/outcome are {} (variant {})",
                    got1,
                    got2,
                    if want { "equal" } else { "not equal" },
                    v % 11
                ),
            ));
        }
        Ok(Exec::Done)
    }

    fn op_rebuild_moves(&mut self) -> R {
        let start = *self.chain.startpos();
        let moves: Vec<Move> = self.chain.iter().collect();
        let outcome = *self.chain.outcome();
        let fresh = match self.rebuild_from_moves(start, &moves, outcome, true)? {
            Some(c) => c,
            None => {
                if self.on(C13) {
                    return Err(self.fail(C13, "rebuild", "the recorded start position is refused by validation".into()));
                }
                return Ok(Exec::Skipped);
            }
        };
        self.stats.hit("fault.rebuild-moves");
        let old_last = Full::of(self.chain.last());
        if self.on(C13) {
            if !(fresh == self.chain) {
                return Err(self.fail(C13, "rebuild", "chain rebuilt from start + moves does not compare equal".into()));
            }
            if let Some(d) = Full::of(fresh.last()).diff(&old_last) {
                return Err(self.fail(
                    C13,
                    "rebuild",
                    format!("chain rebuilt from start + moves ends in a different position (rebuilt vs live): {}", d),
                ));
            }
        }
        if self.on(C14) && self.sparse_outcome {
            let ca = self.chain.verif_repeat().count(self.chain.last());
            let cb = fresh.verif_repeat().count(fresh.last());
            if ca != cb {
                return Err(self.fail(
                    C14,
                    "repeat-count",
                    format!("live chain counts {} occurrences of the current position, a rebuilt chain {}", ca, cb),
                ));
            }
        } else if self.on(C14) {
            let a = self.chain.calc_outcome();
            let b = fresh.calc_outcome();
            let ca = self.chain.verif_repeat().count(self.chain.last());
            let cb = fresh.verif_repeat().count(fresh.last());
            if ca != cb {
                return Err(self.fail(
                    C14,
                    "repeat-count",
                    format!("live chain counts {} occurrences of the current position, a rebuilt chain {}", ca, cb),
                ));
            }
            let key = self.rc.keys[self.rc.len()].clone();
            let count = self.rc.count_key(&key);
            let info = self.info().clone();
            let exp = OutcomeExpect::of(&info, count);
            if let Err(e) = exp.judge(b) {
                return Err(self.fail(C14, "outcome", format!("rebuilt chain (live one says {:?}): {}", a, e)));
            }
        }
        // continue the run on the rebuilt object; the volatile state of the old one is dropped
        self.chain = fresh;
        let mut spy = BaseMoveChain::<SpyRepeat>::new(Board::try_from(start).unwrap());
        for m in &moves {
            let _ = crate::lib_api::repush(&mut spy, *m);
        }
        spy.reset_outcome(outcome);
        self.spy = spy;
        self.spy_seen = self.spy.verif_repeat().log.borrow().len();
        // every position of the rebuilt chain has now been "observed" only at its end
        Ok(Exec::Done)
    }

    fn op_rebuild_uci(&mut self) -> R {
        if !self.on(C17) {
            return Ok(Exec::Skipped);
        }
        let text = self.chain.uci().to_string();
        let start = match Board::try_from(*self.chain.startpos()) {
            Ok(b) => b,
            Err(_) => return Ok(Exec::Skipped),
        };
        self.stats.hit("fault.rebuild-uci-text");
        let mut fresh = match MoveChain::from_uci_list(start, &text) {
            Ok(c) => c,
            Err(e) => {
                return Err(self.fail(
                    C17,
                    "uci-roundtrip",
                    format!("the chain's own UCI list {:?} does not replay from the start position: {}", text, e),
                ))
            }
        };
        let a: Vec<Move> = self.chain.iter().collect();
        let b: Vec<Move> = fresh.iter().collect();
        if a != b {
            return Err(self.fail(
                C17,
                "uci-roundtrip",
                format!("UCI list {:?} replays to [{}], the chain holds [{}]", text, fmt_moves(&b), fmt_moves(&a)),
            ));
        }
        fresh.reset_outcome(*self.chain.outcome());
        if !(fresh == self.chain) {
            return Err(self.fail(C17, "uci-roundtrip", "chain rebuilt from its UCI list does not compare equal".into()));
        }
        if let Some(d) = Full::of(fresh.last()).diff(&Full::of(self.chain.last())) {
            return Err(self.fail(
                C17,
                "uci-roundtrip",
                format!("chain rebuilt from its UCI list ends in a different position: {}", d),
            ));
        }
        self.chain = fresh;
        // the lock-step chain is rebuilt as well, so that both objects have the same construction history
        if let Ok(start) = Board::try_from(self.rc.start) {
            let mut spy = BaseMoveChain::<SpyRepeat>::new(start);
            for m in self.rc.moves.clone() {
                let _ = crate::lib_api::repush(&mut spy, m);
            }
            spy.reset_outcome(self.rc.outcome);
            self.spy = spy;
            self.spy_seen = self.spy.verif_repeat().log.borrow().len();
        }
        Ok(Exec::Done)
    }

    // -------------------------------------------------------------- functional make and probes

    fn op_board_make(&mut self, ml: &MoveLike) -> R {
        let info = self.info().clone();
        let b = self.chain.last().clone();
        let r = self.functional_make(&b, &info, ml)?;
        if r == Exec::Done {
            self.stats.hit("op.board-make");
        }
        Ok(r)
    }

    /// C02 at a board that came through the validation gate from *edited* contents (a probe): the
    /// gate is the only thing standing between sloppy input - a stale en-passant mark, a right
    /// without its rook - and move generation that trusts the stored position. Every move the
    /// library's own generator lists there, every move the model lists, and every capture that
    /// merely looks like en passant is applied through the safe functional path and must be accepted
    /// exactly when it is legal (seeded changes S-C02-22 and S-C04-22: a gate that lets an
    /// en-passant mark behind a pawn of the side to move through).
    fn acceptance_sweep(&mut self, b: &Board) -> Result<(), Violation> {
        if !self.on(C02) {
            return Ok(());
        }
        let info = Info::of(b);
        if !info.pos.plausible() {
            return Ok(());
        }
        self.stats.hit("probe.acceptance-sweep");
        let mut cands: Vec<RMove> = info.pseudo.clone();
        for mv in owlchess::movegen::semilegal::gen_all(b).iter() {
            let r = crate::full::rmove_of(mv);
            if !cands.contains(&r) {
                self.stats.hit("probe.library-lists-a-move-the-model-does-not");
                cands.push(r);
            }
        }
        if let Some(e) = info.pos.ep {
            let e = e as usize;
            let me = info.pos.white;
            let (f, r) = (rm::file_of(e), rm::row_of(e));
            let behind = r + if me { -1 } else { 1 };
            if (0..8).contains(&behind) {
                for df in [-1, 1] {
                    if !(0..8).contains(&(f + df)) {
                        continue;
                    }
                    let s = rm::sq(f + df, r);
                    if info.pos.sq[s] == rm::cell(me, rm::P) {
                        let m = RMove { kind: rm::K_EP, cell: rm::cell(me, rm::P), src: s as u8, dst: rm::sq(f, behind) as u8 };
                        if !cands.contains(&m) {
                            cands.push(m);
                        }
                    }
                }
            }
        }
        for m in cands {
            if crate::full::move_of(&m).is_none() {
                continue;
            }
            self.functional_make(b, &info, &MoveLike::Move(m))?;
        }
        Ok(())
    }

    fn op_fen_probe(&mut self, text: &str) -> R {
        if !self.on(C02) {
            return Ok(Exec::Skipped);
        }
        self.stats.hit("op.fen-probe");
        if let Ok(b) = Board::from_fen(text) {
            self.stats.hit("probe.fen-accepted");
            self.check_valid(&b, &format!("board parsed from FEN {:?}", text))?;
            self.acceptance_sweep(&b)?;
        }
        Ok(Exec::Done)
    }

    fn op_raw_probe(&mut self, e: &Edit) -> R {
        if !self.on(C02) && !self.on(C05) {
            return Ok(Exec::Skipped);
        }
        let base = self.chain.last().clone();
        let mut raw = *base.raw();
        let mut want = pos_of(&base);
        match *e {
            Edit::Square(s, c) => {
                if s >= 64 || c >= 13 {
                    return Ok(Exec::Skipped);
                }
                raw.cells[s as usize] = owlchess::Cell::from_index(c as usize);
                want.sq[s as usize] = c;
            }
            Edit::MoveMan(a, b) => {
                if a >= 64 || b >= 64 || a == b || want.sq[a as usize] == 0 {
                    return Ok(Exec::Skipped);
                }
                want.sq[b as usize] = want.sq[a as usize];
                want.sq[a as usize] = 0;
                raw = crate::full::raw_of_pos(&want);
            }
            Edit::Side => {
                raw.side = raw.side.inv();
                want.white = !want.white;
            }
            Edit::Castling(i) => {
                if i >= 4 {
                    return Ok(Exec::Skipped);
                }
                want.castling[i as usize] = !want.castling[i as usize];
                raw = crate::full::raw_of_pos(&want);
            }
            Edit::Ep(f) => {
                if f > 8 {
                    return Ok(Exec::Skipped);
                }
                want.ep = if f == 8 { None } else { Some(((if want.white { 3 } else { 4 }) * 8 + f) as u8) };
                raw = crate::full::raw_of_pos(&want);
            }
            Edit::Clock(v) => {
                raw.move_counter = v;
                want.clock = v;
            }
            Edit::Number(v) => {
                raw.move_number = v;
                want.number = v;
            }
        }
        self.stats.hit("op.raw-probe");
        let nb = match Board::try_from(raw) {
            Ok(b) => b,
            Err(_) => {
                self.stats.hit("probe.raw-rejected");
                return Ok(Exec::Done);
            }
        };
        self.stats.hit("probe.raw-accepted");
        self.check_valid(&nb, "board converted from an edited raw board")?;
        self.acceptance_sweep(&nb)?;
        // the by-reference entry point must give the very same board
        match Board::try_from(&raw) {
            Ok(nb2) => {
                if let Some(d) = Full::of(&nb2).diff(&Full::of(&nb)) {
                    for p in [C02, C05] {
                        if self.on(p) {
                            return Err(self.fail(
                                p,
                                if p == C02 { "invalid-position" } else { "hidden-state" },
                                format!("Board::try_from(&raw) and Board::try_from(raw) give different boards for the same raw board (by reference vs by value): {}", d),
                            ));
                        }
                    }
                }
                self.check_valid(&nb2, "board converted from an edited raw board by reference")?;
                if self.on(C05) {
                    let f = Full::of(&nb2);
                    self.record_position(&nb2, &f)?;
                }
            }
            Err(e) => {
                if self.on(C02) {
                    return Err(self.fail(C02, "invalid-position", format!("Board::try_from(raw) accepts a raw board that Board::try_from(&raw) refuses: {}", e)));
                }
            }
        }
        if self.on(C05) {
            let f = Full::of(&nb);
            self.record_position(&nb, &f)?;
            let k0 = key_of(&base);
            let k1 = key_of(&nb);
            let kept = k1 == want.key();
            if kept && k1 != k0 && !matches!(e, Edit::MoveMan(_, _)) {
                // exactly one feature differs (the gate kept the edit and changed nothing else)
                self.stats.hit("probe.single-feature-diff");
                if nb.zobrist_hash() == base.zobrist_hash() {
                    return Err(self.fail(
                        C05,
                        "hash-collision",
                        format!(
                            "{} and {} differ in exactly one feature ({:?}) but hash the same ({:016x})",
                            pos_of(&base).to_fen(),
                            pos_of(&nb).to_fen(),
                            e,
                            nb.zobrist_hash()
                        ),
                    ));
                }
            }
            if k1 == k0 && nb.zobrist_hash() != base.zobrist_hash() {
                return Err(self.fail(
                    C05,
                    "hidden-state",
                    format!(
                        "positions equal in squares, side, rights and ep mark hash differently after {:?} ({:016x} vs {:016x})",
                        e,
                        base.zobrist_hash(),
                        nb.zobrist_hash()
                    ),
                ));
            }
            if k1 == k0 && matches!(e, Edit::Clock(_) | Edit::Number(_)) {
                self.stats.hit("probe.counters-ignored-by-hash");
            }
        }
        Ok(Exec::Done)
    }

    // -------------------------------------------------------------- end of run

    pub fn finish(&mut self) -> Result<(), Violation> {
        if self.blind {
            // a run that ends inside a blind burst is observed now
            self.blind = false;
            self.invalidate();
            self.check_invariants()?;
            if self.poisoned {
                return Ok(());
            }
        }
        while !self.searchers.is_empty() {
            self.retire_searcher(0)?;
        }
        self.deep_repeat_check()?;
        if self.on(C13) {
            // genuine full replay, from scratch
            match Board::try_from(self.rc.start) {
                Ok(mut b) => {
                    for (i, m) in self.rc.moves.clone().iter().enumerate() {
                        b = match crate::lib_api::reapply(&b, *m) {
                            Ok(n) => n,
                            Err(e) => {
                                return Err(self.fail(
                                    C13,
                                    "refinement",
                                    format!("accepted move #{} ({}) cannot be replayed: {}", i, m, e),
                                ))
                            }
                        };
                    }
                    if let Some(d) = Full::of(self.chain.last()).diff(&Full::of(&b)) {
                        return Err(self.fail(
                            C13,
                            "refinement",
                            format!("final position differs from a from-scratch replay of the accepted moves: {}", d),
                        ));
                    }
                }
                Err(e) => {
                    return Err(self.fail(C13, "refinement", format!("recorded start position fails validation: {}", e)));
                }
            }
            for (i, p) in self.parked.iter().enumerate() {
                let moves: Vec<Move> = p.chain.iter().collect();
                if moves != p.moves || *p.chain.outcome() != p.outcome || Full::of(p.chain.last()) != p.last {
                    return Err(self.fail(
                        C13,
                        "refinement",
                        format!("original #{} changed after its clone was modified", i),
                    ));
                }
            }
        }
        Ok(())
    }
}

pub fn fmt_moves(ms: &[Move]) -> String {
    ms.iter().map(|m| m.to_string()).collect::<Vec<_>>().join(" ")
}

pub fn fmt_rmove(m: &RMove) -> String {
    let kind = match m.kind {
        rm::K_NULL => "null",
        rm::K_SIMPLE => "simple",
        rm::K_CASTLE_K => "O-O",
        rm::K_CASTLE_Q => "O-O-O",
        rm::K_DOUBLE => "double",
        rm::K_EP => "ep",
        _ => "promo",
    };
    format!("{}({},{})", m.uci(), kind, b".PKNBRQpknbrq"[(m.cell as usize).min(12)] as char)
}

pub fn fmt_ev(e: &SpyEv) -> String {
    let f = |k: &PosKey| format!("{:08x}", digest_key(k) as u32);
    match e {
        SpyEv::Push(k) => format!("push({})", f(k)),
        SpyEv::Pop(k) => format!("pop({})", f(k)),
        SpyEv::BadPop(k) => format!("pop-of-absent({})", f(k)),
        SpyEv::Count(k) => format!("count({})", f(k)),
    }
}
