//! The only source of randomness in the simulator: SplitMix64 for seeding and
//! xoshiro256** for the per-run stream. No `rand` crate, no thread-local state,
//! no clock.

#[inline]
pub fn splitmix64(state: &mut u64) -> u64 {
    *state = state.wrapping_add(0x9E37_79B9_7F4A_7C15);
    let mut z = *state;
    z = (z ^ (z >> 30)).wrapping_mul(0xBF58_476D_1CE4_E5B9);
    z = (z ^ (z >> 27)).wrapping_mul(0x94D0_49BB_1331_11EB);
    z ^ (z >> 31)
}

/// Mixes the batch seed, a stream tag (property / purpose) and the run index into
/// the seed of one run.
pub fn mix(seed: u64, tag: u64, idx: u64) -> u64 {
    let mut s = seed ^ 0xA076_1D64_78BD_642F;
    let a = splitmix64(&mut s);
    let mut t = a ^ tag.wrapping_mul(0xE703_7ED1_A0B4_28DB);
    let b = splitmix64(&mut t);
    let mut u = b ^ idx.wrapping_mul(0x8EBC_6AF0_9C88_C6E3);
    splitmix64(&mut u)
}

#[derive(Clone, Debug)]
pub struct Rng {
    s: [u64; 4],
}

impl Rng {
    pub fn new(seed: u64) -> Rng {
        let mut st = seed;
        let mut s = [0u64; 4];
        for x in s.iter_mut() {
            *x = splitmix64(&mut st);
        }
        if s == [0; 4] {
            s[0] = 1;
        }
        Rng { s }
    }

    #[inline]
    pub fn next_u64(&mut self) -> u64 {
        let result = self.s[1].wrapping_mul(5).rotate_left(7).wrapping_mul(9);
        let t = self.s[1] << 17;
        self.s[2] ^= self.s[0];
        self.s[3] ^= self.s[1];
        self.s[1] ^= self.s[2];
        self.s[0] ^= self.s[3];
        self.s[2] ^= t;
        self.s[3] = self.s[3].rotate_left(45);
        result
    }

    /// Uniform in `[0, n)`; `n == 0` returns 0.
    #[inline]
    pub fn below(&mut self, n: usize) -> usize {
        if n == 0 {
            return 0;
        }
        // Multiply-shift; the tiny bias is irrelevant here, determinism is what matters.
        (((self.next_u64() >> 32) * (n as u64)) >> 32) as usize
    }

    /// Uniform in `[lo, hi]` (inclusive).
    #[inline]
    pub fn range(&mut self, lo: usize, hi: usize) -> usize {
        debug_assert!(lo <= hi);
        lo + self.below(hi - lo + 1)
    }

    /// True with probability `pct` percent.
    #[inline]
    pub fn chance(&mut self, pct: u32) -> bool {
        (self.below(100) as u32) < pct
    }

    /// True with probability `num/den`.
    #[inline]
    pub fn ratio(&mut self, num: usize, den: usize) -> bool {
        self.below(den) < num
    }

    pub fn pick<'a, T>(&mut self, xs: &'a [T]) -> Option<&'a T> {
        if xs.is_empty() {
            None
        } else {
            Some(&xs[self.below(xs.len())])
        }
    }

    /// Picks an index according to integer weights (all-zero → index 0).
    pub fn weighted(&mut self, weights: &[u32]) -> usize {
        let total: u64 = weights.iter().map(|&w| w as u64).sum();
        if total == 0 {
            return 0;
        }
        let mut x = (self.next_u64() % total) as i64;
        for (i, &w) in weights.iter().enumerate() {
            x -= w as i64;
            if x < 0 {
                return i;
            }
        }
        weights.len() - 1
    }
}

/// FNV-1a, used for digests of traces and observations (never for decisions).
#[derive(Clone, Copy, Debug)]
pub struct Fnv(pub u64);

impl Default for Fnv {
    fn default() -> Self {
        Fnv(0xcbf2_9ce4_8422_2325)
    }
}

impl Fnv {
    #[inline]
    pub fn byte(&mut self, b: u8) {
        self.0 ^= b as u64;
        self.0 = self.0.wrapping_mul(0x0000_0100_0000_01B3);
    }
    #[inline]
    pub fn bytes(&mut self, bs: &[u8]) {
        for &b in bs {
            self.byte(b);
        }
    }
    #[inline]
    pub fn u64(&mut self, x: u64) {
        self.bytes(&x.to_le_bytes());
    }
    #[inline]
    pub fn str(&mut self, s: &str) {
        self.bytes(s.as_bytes());
        self.byte(0xff);
    }
}
