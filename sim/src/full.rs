//! Full observable *and hidden* state of a `Board`, conversion between the library's
//! types and the reference model's, and the from-scratch oracle.

use crate::refmodel::{self as rm, Pos, PosKey, RMove};
use owlchess::moves::PromotePiece;
use owlchess::{
    Board, CastlingRights, CastlingSide, Cell, Color, Coord, Move, MoveKind, RawBoard,
};

/// Everything a `Board` stores: the six raw fields, the Zobrist hash and all
/// sixteen occupancy sets (white, black, combined, 13 per-cell sets).
#[derive(Clone, PartialEq, Eq, Debug)]
pub struct Full {
    pub raw: RawBoard,
    pub hash: u64,
    pub white: u64,
    pub black: u64,
    pub all: u64,
    pub pieces: [u64; 13],
}

impl Full {
    pub fn of(b: &Board) -> Full {
        let mut pieces = [0u64; 13];
        for (i, p) in pieces.iter_mut().enumerate() {
            *p = b.piece(Cell::from_index(i)).as_raw();
        }
        Full {
            raw: *b.raw(),
            hash: b.zobrist_hash(),
            white: b.color(Color::White).as_raw(),
            black: b.color(Color::Black).as_raw(),
            all: b.verif_all().as_raw(),
            pieces,
        }
    }

    /// Human-readable first difference, `None` if bit-identical.
    pub fn diff(&self, other: &Full) -> Option<String> {
        if self == other {
            return None;
        }
        if self.raw.cells != other.raw.cells {
            for i in 0..64 {
                if self.raw.cells[i] != other.raw.cells[i] {
                    return Some(format!(
                        "square {}: {:?} vs {:?}",
                        rm::sq_name(i),
                        self.raw.cells[i],
                        other.raw.cells[i]
                    ));
                }
            }
        }
        if self.raw.side != other.raw.side {
            return Some(format!("side {:?} vs {:?}", self.raw.side, other.raw.side));
        }
        if self.raw.castling != other.raw.castling {
            return Some(format!(
                "castling {} vs {}",
                self.raw.castling, other.raw.castling
            ));
        }
        if self.raw.ep_source != other.raw.ep_source {
            return Some(format!(
                "ep_source {:?} vs {:?}",
                self.raw.ep_source, other.raw.ep_source
            ));
        }
        if self.raw.move_counter != other.raw.move_counter {
            return Some(format!(
                "half-move clock {} vs {}",
                self.raw.move_counter, other.raw.move_counter
            ));
        }
        if self.raw.move_number != other.raw.move_number {
            return Some(format!(
                "move number {} vs {}",
                self.raw.move_number, other.raw.move_number
            ));
        }
        if self.hash != other.hash {
            return Some(format!("hash {:016x} vs {:016x}", self.hash, other.hash));
        }
        if self.white != other.white {
            return Some(format!("white set {:016x} vs {:016x}", self.white, other.white));
        }
        if self.black != other.black {
            return Some(format!("black set {:016x} vs {:016x}", self.black, other.black));
        }
        if self.all != other.all {
            return Some(format!("combined set {:016x} vs {:016x}", self.all, other.all));
        }
        for i in 0..13 {
            if self.pieces[i] != other.pieces[i] {
                return Some(format!(
                    "piece set [{}] {:016x} vs {:016x}",
                    b".PKNBRQpknbrq"[i] as char,
                    self.pieces[i],
                    other.pieces[i]
                ));
            }
        }
        Some("unknown difference".into())
    }

    /// Occupancy sets rebuilt from the squares by the harness (independent of the
    /// library's gate), compared with the stored ones.
    pub fn sets_vs_squares(&self) -> Option<String> {
        let mut white = 0u64;
        let mut black = 0u64;
        let mut pieces = [0u64; 13];
        for i in 0..64 {
            let c = self.raw.cells[i].index();
            if c == 0 {
                continue;
            }
            let bit = 1u64 << i;
            if c <= 6 {
                white |= bit
            } else {
                black |= bit
            }
            pieces[c] |= bit;
        }
        if white != self.white {
            return Some(format!(
                "white set {:016x}, squares give {:016x}",
                self.white, white
            ));
        }
        if black != self.black {
            return Some(format!(
                "black set {:016x}, squares give {:016x}",
                self.black, black
            ));
        }
        if (white | black) != self.all {
            return Some(format!(
                "combined set {:016x}, squares give {:016x}",
                self.all,
                white | black
            ));
        }
        for i in 0..13 {
            if pieces[i] != self.pieces[i] {
                return Some(format!(
                    "piece set [{}] {:016x}, squares give {:016x}",
                    b".PKNBRQpknbrq"[i] as char,
                    self.pieces[i],
                    pieces[i]
                ));
            }
        }
        None
    }
}

/// The from-scratch oracle: re-validating the raw contents succeeds and reproduces
/// the board identically in every stored field. Returns a description of the
/// failure.
pub fn revalidate(b: &Board) -> Result<(), String> {
    match Board::try_from(*b.raw()) {
        Err(e) => Err(format!("re-validation of the raw position fails: {}", e)),
        Ok(fresh) => match Full::of(b).diff(&Full::of(&fresh)) {
            None => Ok(()),
            Some(d) => Err(format!(
                "stored state differs from from-scratch rebuild (stored vs rebuilt): {}",
                d
            )),
        },
    }
}

pub fn pos_of_raw(r: &RawBoard) -> Pos {
    let mut p = Pos::empty();
    for i in 0..64 {
        p.sq[i] = r.cells[i].index() as u8;
    }
    p.white = r.side == Color::White;
    p.castling = [
        r.castling.has(Color::White, CastlingSide::Queen),
        r.castling.has(Color::White, CastlingSide::King),
        r.castling.has(Color::Black, CastlingSide::Queen),
        r.castling.has(Color::Black, CastlingSide::King),
    ];
    p.ep = r.ep_source.map(|c| c.index() as u8);
    p.clock = r.move_counter;
    p.number = r.move_number;
    p
}

pub fn pos_of(b: &Board) -> Pos {
    pos_of_raw(b.raw())
}

pub fn key_of(b: &Board) -> PosKey {
    pos_of(b).key()
}

pub fn raw_of_pos(p: &Pos) -> RawBoard {
    let mut r = RawBoard::empty();
    for i in 0..64 {
        r.cells[i] = Cell::from_index(p.sq[i] as usize);
    }
    r.side = if p.white { Color::White } else { Color::Black };
    let mut c = CastlingRights::EMPTY;
    if p.castling[rm::WQ] {
        c.set(Color::White, CastlingSide::Queen);
    }
    if p.castling[rm::WK] {
        c.set(Color::White, CastlingSide::King);
    }
    if p.castling[rm::BQ] {
        c.set(Color::Black, CastlingSide::Queen);
    }
    if p.castling[rm::BK] {
        c.set(Color::Black, CastlingSide::King);
    }
    r.castling = c;
    r.ep_source = p.ep.map(|e| Coord::from_index(e as usize));
    r.move_counter = p.clock;
    r.move_number = p.number;
    r
}

pub fn kind_of_u8(k: u8) -> MoveKind {
    match k {
        0 => MoveKind::Null,
        1 => MoveKind::Simple,
        2 => MoveKind::CastlingKingside,
        3 => MoveKind::CastlingQueenside,
        4 => MoveKind::PawnDouble,
        5 => MoveKind::Enpassant,
        6 => MoveKind::PromoteKnight,
        7 => MoveKind::PromoteBishop,
        8 => MoveKind::PromoteRook,
        _ => MoveKind::PromoteQueen,
    }
}

pub fn rmove_of(m: &Move) -> RMove {
    RMove {
        kind: m.kind() as u8,
        cell: m.src_cell().index() as u8,
        src: m.src().index() as u8,
        dst: m.dst().index() as u8,
    }
}

/// Builds a library move through the *safe, checked* constructor. `None` if the
/// tuple is not well-formed (such a tuple is never handed to the library).
pub fn move_of(r: &RMove) -> Option<Move> {
    if r.kind == rm::K_NULL {
        return Some(Move::NULL);
    }
    if r.cell as usize >= 13 || r.src >= 64 || r.dst >= 64 {
        return None;
    }
    // `Move::new` is library code: should it panic for some tuple (a matter of move
    // construction, not of the properties judged here), the tuple simply cannot be built
    let (kind, cell, src, dst) = (
        kind_of_u8(r.kind),
        Cell::from_index(r.cell as usize),
        Coord::from_index(r.src as usize),
        Coord::from_index(r.dst as usize),
    );
    match std::panic::catch_unwind(move || Move::new(kind, cell, src, dst)) {
        Ok(r) => r.ok(),
        Err(_) => None,
    }
}

pub fn promote_of(p: Option<u8>) -> Option<PromotePiece> {
    match p {
        Some(rm::N) => Some(PromotePiece::Knight),
        Some(rm::B) => Some(PromotePiece::Bishop),
        Some(rm::R) => Some(PromotePiece::Rook),
        Some(rm::Q) => Some(PromotePiece::Queen),
        _ => None,
    }
}

pub fn fen_of(b: &Board) -> String {
    pos_of(b).to_fen()
}
