//! Seeded workload and fault generator. Looks at the live world to produce the next
//! *concrete* operation; never judges anything.

use crate::denote::{render_san, san_data_for};
use crate::full::{move_of, pos_of};
use crate::ops::*;
use crate::refmodel::{self as rm, file_of, piece_of, row_of, Pos, RMove};
use crate::rng::Rng;
use crate::starts::Overlay;
use crate::world::*;

pub const CAT_PUSH: usize = 0;
pub const CAT_LIST: usize = 1;
pub const CAT_POP: usize = 2;
pub const CAT_OUTCOME: usize = 3;
pub const CAT_FORK: usize = 4;
pub const CAT_EQ: usize = 5;
pub const CAT_REBUILD_MOVES: usize = 6;
pub const CAT_REBUILD_UCI: usize = 7;
pub const CAT_BOARD_MAKE: usize = 8;
pub const CAT_FEN: usize = 9;
pub const CAT_RAW: usize = 10;
pub const CAT_READ: usize = 11;
pub const CAT_SPAWN: usize = 12;
pub const CAT_SSTEP: usize = 13;
pub const NCAT: usize = 14;

pub const FAULT_NAMES: [&str; 7] = [
    "king-exposing-move",
    "illegal-move",
    "wrong-kind",
    "bad-uci",
    "bad-san",
    "malformed-text",
    "multibyte-text",
];

#[derive(Clone, Debug)]
pub struct Swarm {
    pub steps: usize,
    pub w: [u32; NCAT],
    /// forms of a legal push: Move, uci::Move, san::Move, Uci(str), San(str)
    pub form_w: [u32; 5],
    /// percent of push attempts that are injected refusals
    pub fault_pct: u32,
    pub fault_w: [u32; 7],
    pub sink_fault_pct: u32,
    pub list_fault_pct: u32,
    pub shuffle: u32,
    pub quiet: u32,
    pub special: u32,
    /// percent: right after a pop or a special move, inject a refusal / rebuild next
    pub after_special: u32,
    pub start_w: [u32; 6],
    pub overlay: Overlay,
    pub quiet_start: u32,
    pub faults_on: bool,
    /// searcher op weights: Make, TryUnchecked, MakeNull, TryNull, TryRaw, Functional, Unmake, Retire
    pub s_w: [u32; 8],
}

fn base_weights(prop: u32) -> [u32; NCAT] {
    //            push list pop out fork eq rbm rbu bmk fen raw read spawn sstep
    match prop {
        C02 => [40, 4, 10, 2, 1, 0, 1, 0, 10, 3, 4, 1, 2, 20],
        C04 => [25, 2, 18, 1, 1, 0, 1, 0, 2, 0, 0, 4, 4, 40],
        C05 => [25, 2, 12, 1, 1, 0, 2, 0, 4, 0, 8, 1, 4, 35],
        C13 => [35, 8, 18, 8, 3, 6, 4, 0, 1, 0, 0, 2, 1, 2],
        C14 => [45, 3, 15, 10, 1, 0, 3, 0, 0, 0, 0, 0, 0, 0],
        C17 => [35, 4, 8, 6, 1, 0, 1, 5, 0, 0, 0, 25, 0, 0],
        _ => [30, 4, 12, 4, 2, 2, 2, 2, 4, 2, 3, 6, 2, 15],
    }
}

impl Swarm {
    pub fn draw(rng: &mut Rng, prop: u32) -> Swarm {
        let mut w = base_weights(prop);
        let long = rng.chance(3);
        // a marathon now and then: one game of a thousand plies (buffers, capacities, widths)
        let marathon = rng.below(250) == 0;
        // swarm: every category weight is scaled by a random factor, some are switched off
        for (i, x) in w.iter_mut().enumerate() {
            let f = [0u32, 1, 2, 2, 4, 8][rng.below(6)];
            *x = *x * f / 2;
            if i == CAT_PUSH && *x == 0 {
                *x = 20;
            }
        }
        if marathon {
            w[CAT_PUSH] = w[CAT_PUSH].max(20) * 12;
            w[CAT_POP] /= 8;
            w[CAT_OUTCOME] /= 8;
            w[CAT_LIST] /= 4;
        } else if long && rng.chance(60) {
            // a long *game*: mostly accepted pushes, few pops, so that the chain itself gets long
            w[CAT_PUSH] = w[CAT_PUSH].max(20) * 6;
            w[CAT_POP] /= 4;
            w[CAT_OUTCOME] /= 4;
        }
        let faults_on = !rng.chance(15);
        let fault_pct = if faults_on { [5u32, 10, 25, 25, 40, 60][rng.below(6)] } else { 0 };
        let mut fault_w = [3u32, 3, 2, 2, 3, 2, 2];
        for x in fault_w.iter_mut() {
            if rng.chance(30) {
                *x = 0;
            }
        }
        let mut form_w = [3u32, 2, 3, 3, 3];
        for x in form_w.iter_mut() {
            if rng.chance(25) {
                *x = 0;
            }
        }
        if form_w.iter().all(|&x| x == 0) {
            form_w[0] = 1;
        }
        let shuffle_choices: &[u32] = if prop == C14 { &[30, 60, 80, 90, 95] } else { &[0, 0, 10, 30, 70] };
        let overlay_choices: &[Overlay] = match prop {
            C14 => &[
                Overlay::None,
                Overlay::None,
                Overlay::Clock50,
                Overlay::Clock50,
                Overlay::Clock75,
                Overlay::Clock75,
            ],
            C17 => &[Overlay::None, Overlay::None, Overlay::None, Overlay::NumberMid, Overlay::NumberMid, Overlay::Clock50, Overlay::Clock75],
            _ => &[
                Overlay::None,
                Overlay::None,
                Overlay::None,
                Overlay::None,
                Overlay::Clock50,
                Overlay::Clock75,
                Overlay::ClockMax,
                Overlay::NumberMax,
                Overlay::BothMax,
                Overlay::NumberMid,
            ],
        };
        let overlay = overlay_choices[rng.below(overlay_choices.len())];
        let quiet_start = match overlay {
            Overlay::Clock50 | Overlay::Clock75 => 70,
            _ => {
                if prop == C14 {
                    25
                } else {
                    5
                }
            }
        };
        let mut start_w = [2u32, 4, 3, 2, 3, 1];
        for x in start_w.iter_mut() {
            if rng.chance(25) {
                *x = 0;
            }
        }
        if start_w.iter().all(|&x| x == 0) {
            start_w[1] = 1;
        }
        let s_w = match prop {
            // C02 judges only boards no unsafe primitive has touched: safe make_raw / make, then drop
            C02 => [0, 0, 0, 0, 40, 25, 0, 12],
            C04 | C05 => [35, 12, 5, 5, 8, 3, 28, 2],
            _ => [20, 8, 3, 3, 15, 8, 22, 2],
        };
        Swarm {
            // mostly short and diverse; now and then a long history (many push/pop cycles)
            steps: if marathon { 2600 } else if long { [800usize, 1200][rng.below(2)] } else { [64usize, 96, 128, 200, 300, 400][rng.below(6)] },
            w,
            form_w,
            fault_pct,
            fault_w,
            sink_fault_pct: if faults_on { [0u32, 20, 50][rng.below(3)] } else { 0 },
            list_fault_pct: if faults_on { [0u32, 30, 60][rng.below(3)] } else { 0 },
            shuffle: shuffle_choices[rng.below(shuffle_choices.len())],
            quiet: [0u32, 0, 20, 50, 80][rng.below(5)],
            special: [0u32, 10, 30, 60][rng.below(4)],
            after_special: [0u32, 20, 50, 80][rng.below(4)],
            start_w,
            overlay,
            quiet_start,
            faults_on,
            s_w,
        }
    }

    pub fn describe(&self) -> String {
        format!(
            "steps={} w={:?} forms={:?} fault_pct={} fault_w={:?} shuffle={} quiet={} special={} after_special={} overlay={} faults_on={}",
            self.steps,
            self.w,
            self.form_w,
            self.fault_pct,
            self.fault_w,
            self.shuffle,
            self.quiet,
            self.special,
            self.after_special,
            self.overlay.name(),
            self.faults_on
        )
    }
}

pub struct Gen {
    pub sw: Swarm,
    pub rng: Rng,
    /// sparse observation of calc_outcome in this run (decided once, emitted as the first op)
    sparse: Option<bool>,
    /// property being judged (C02 runs never use values built through unsafe constructors)
    prop: u32,
    step0: bool,
    /// remaining operations of the blind burst in progress
    blind_left: usize,
    /// percent chance per owner step to begin a blind burst
    blind_pct: u32,
    /// the previous owner step was a pop or a special move: a good place for a fault
    hot: bool,
}

const GARBAGE: &[u8] = b"abcdefgh12345678NBRQKOx:=+#-0 PpnbrqkZ9.";
const WIDE: [&str; 5] = ["\u{e9}", "\u{20ac}", "\u{2658}", "\u{1d11e}", "\u{430}"];

fn uci_text(m: &RMove) -> String {
    m.uci()
}

impl Gen {
    pub fn new(sw: Swarm, rng: Rng) -> Gen {
        Gen { sw, rng, hot: false, sparse: None, prop: 0, step0: true, blind_left: 0, blind_pct: 0 }
    }

    fn choose_legal(&mut self, info: &Info, w: &World) -> Option<RMove> {
        if info.legal.is_empty() {
            return None;
        }
        let rng = &mut self.rng;
        let n = w.rc.moves.len();
        if n >= 2 && rng.chance(self.sw.shuffle) {
            let prev = crate::full::rmove_of(&w.rc.moves[n - 2]);
            if let Some(m) = info
                .legal
                .iter()
                .find(|m| m.src == prev.dst && m.dst == prev.src && m.cell == prev.cell && m.kind == rm::K_SIMPLE)
            {
                return Some(*m);
            }
        }
        if rng.chance(10) {
            let corner: Vec<RMove> = info
                .legal
                .iter()
                .copied()
                .filter(|m| matches!(m.dst, 0 | 7 | 56 | 63) && info.pos.sq[m.dst as usize] != 0)
                .collect();
            if let Some(m) = rng.pick(&corner) {
                return Some(*m);
            }
        }
        if rng.chance(self.sw.special) {
            let sp: Vec<RMove> = info.legal.iter().copied().filter(|m| m.kind != rm::K_SIMPLE).collect();
            if let Some(m) = rng.pick(&sp) {
                return Some(*m);
            }
        }
        if rng.chance(self.sw.quiet) {
            let q: Vec<RMove> = info
                .legal
                .iter()
                .copied()
                .filter(|m| m.kind == rm::K_SIMPLE && piece_of(m.cell) != rm::P && info.pos.sq[m.dst as usize] == 0)
                .collect();
            if let Some(m) = rng.pick(&q) {
                return Some(*m);
            }
        }
        rng.pick(&info.legal).copied()
    }

    /// A legal move in one of the five forms.
    fn legal_like(&mut self, info: &Info, m: &RMove) -> MoveLike {
        // now and then through the unsafe-built Make wrappers (within their contract)
        if self.prop != C02 && self.rng.chance(4) {
            return if self.rng.chance(50) { MoveLike::Unchecked(*m) } else { MoveLike::TryUnchecked(*m) };
        }
        let form = self.rng.weighted(&self.sw.form_w);
        let variant = self.rng.next_u64() as u32;
        match form {
            0 => MoveLike::Move(*m),
            1 => MoveLike::UciMove { src: m.src, dst: m.dst, promo: m.promo_piece() },
            2 => MoveLike::SanMove {
                data: san_data_for(&info.pos, m, variant),
                check: [0u8, 0, 1, 3, 2][self.rng.below(5)],
            },
            3 => MoveLike::UciStr(uci_text(m)),
            _ => {
                let data = san_data_for(&info.pos, m, variant);
                let check = [0u8, 0, 0, 1, 3, 2][self.rng.below(6)];
                MoveLike::SanStr(render_san(&data, check, variant >> 8))
            }
        }
    }

    fn random_wellformed(&mut self, info: &Info) -> Option<RMove> {
        for _ in 0..12 {
            let kind = [1u8, 1, 1, 1, 2, 3, 4, 5, 6, 7, 8, 9][self.rng.below(12)];
            let white = if self.rng.chance(85) { info.pos.white } else { !info.pos.white };
            let pc = self.rng.below(6) as u8;
            let m = RMove {
                kind,
                cell: rm::cell(white, pc),
                src: self.rng.below(64) as u8,
                dst: self.rng.below(64) as u8,
            };
            if move_of(&m).is_some() && !info.legal.contains(&m) {
                return Some(m);
            }
        }
        None
    }

    /// A move-like value meant to be refused. Kind index as in FAULT_NAMES.
    fn faulty_like(&mut self, info: &Info) -> MoveLike {
        let kind = self.rng.weighted(&self.sw.fault_w);
        let variant = self.rng.next_u64() as u32;
        let some_legal = self.rng.pick(&info.legal).copied();
        match kind {
            0 => {
                let exposing: Vec<RMove> = info.pseudo.iter().copied().filter(|m| !info.legal.contains(m)).collect();
                if let Some(m) = self.rng.pick(&exposing).copied() {
                    if self.prop != C02 && self.rng.chance(15) {
                        return MoveLike::TryUnchecked(m);
                    }
                    return match self.rng.below(4) {
                        0 => MoveLike::UciStr(uci_text(&m)),
                        1 => MoveLike::UciMove { src: m.src, dst: m.dst, promo: m.promo_piece() },
                        2 => MoveLike::SanStr(render_san(&san_data_for(&info.pos, &m, variant | 8 | 16), 0, variant >> 8)),
                        _ => MoveLike::Move(m),
                    };
                }
                self.faulty_illegal(info)
            }
            1 => self.faulty_illegal(info),
            2 => {
                if let Some(l) = some_legal {
                    for _ in 0..8 {
                        let mut m = l;
                        if self.rng.chance(60) {
                            m.kind = 1 + self.rng.below(9) as u8;
                        } else {
                            m.cell = 1 + self.rng.below(12) as u8;
                        }
                        if m != l && move_of(&m).is_some() && !info.legal.contains(&m) {
                            return MoveLike::Move(m);
                        }
                    }
                }
                self.faulty_illegal(info)
            }
            3 => {
                if self.rng.chance(15) {
                    return match self.rng.below(4) {
                        0 => MoveLike::UciStr("0000".into()),
                        1 => MoveLike::UciNull,
                        2 => MoveLike::SanStr("0000".into()),
                        _ => MoveLike::SanMove { data: SanData::UciNull, check: 0 },
                    };
                }
                if let (Some(l), true) = (some_legal, self.rng.chance(40)) {
                    // a legal move's coordinates with a promotion letter added or dropped
                    let mut t = format!("{}{}", rm::sq_name(l.src as usize), rm::sq_name(l.dst as usize));
                    if l.promo_piece().is_none() {
                        t.push(b"nbrq"[self.rng.below(4)] as char);
                    }
                    return MoveLike::UciStr(t);
                }
                let src = self.rng.below(64) as u8;
                let dst = self.rng.below(64) as u8;
                let promo = if self.rng.chance(15) { Some(2 + self.rng.below(4) as u8) } else { None };
                if self.rng.chance(50) {
                    MoveLike::UciMove { src, dst, promo }
                } else {
                    let mut t = format!("{}{}", rm::sq_name(src as usize), rm::sq_name(dst as usize));
                    if let Some(p) = promo {
                        t.push(b"pknbrq"[p as usize] as char);
                    }
                    MoveLike::UciStr(t)
                }
            }
            4 => {
                let data = match some_legal {
                    Some(l) if self.rng.chance(70) => {
                        let d = san_data_for(&info.pos, &l, variant | 1);
                        self.perturb_san(d)
                    }
                    _ => self.random_san(info),
                };
                let check = [0u8, 1, 3][self.rng.below(3)];
                if self.rng.chance(50) {
                    MoveLike::SanMove { data, check }
                } else {
                    MoveLike::SanStr(render_san(&data, check, variant >> 8))
                }
            }
            5 => {
                let base = some_legal.map(|l| {
                    if self.rng.chance(50) {
                        uci_text(&l)
                    } else {
                        render_san(&san_data_for(&info.pos, &l, variant), 0, variant >> 8)
                    }
                });
                let t = self.garble(base);
                if self.rng.chance(50) {
                    MoveLike::UciStr(t)
                } else {
                    MoveLike::SanStr(t)
                }
            }
            _ => {
                let base = some_legal
                    .map(|l| {
                        if self.rng.chance(50) {
                            uci_text(&l)
                        } else {
                            render_san(&san_data_for(&info.pos, &l, variant), 0, variant >> 8)
                        }
                    })
                    .unwrap_or_else(|| "e2e4".to_string());
                let t = self.widen(&base);
                if self.rng.chance(50) {
                    MoveLike::UciStr(t)
                } else {
                    MoveLike::SanStr(t)
                }
            }
        }
    }

    fn faulty_illegal(&mut self, info: &Info) -> MoveLike {
        // an opponent's move, a displaced legal move, or a random well-formed tuple
        let pick = self.rng.below(3);
        if pick == 0 {
            let mut flipped = info.pos.clone();
            flipped.white = !flipped.white;
            flipped.ep = None;
            let theirs = flipped.pseudo_legal();
            if let Some(m) = self.rng.pick(&theirs).copied() {
                if !info.legal.contains(&m) && move_of(&m).is_some() {
                    return if self.rng.chance(50) { MoveLike::Move(m) } else { MoveLike::UciStr(uci_text(&m)) };
                }
            }
        }
        if pick == 1 {
            if let Some(l) = self.rng.pick(&info.legal).copied() {
                for _ in 0..8 {
                    let mut m = l;
                    m.dst = self.rng.below(64) as u8;
                    if move_of(&m).is_some() && !info.legal.contains(&m) {
                        return match self.rng.below(3) {
                            0 => MoveLike::UciStr(uci_text(&m)),
                            1 => MoveLike::UciMove { src: m.src, dst: m.dst, promo: m.promo_piece() },
                            _ => MoveLike::Move(m),
                        };
                    }
                }
            }
        }
        match self.random_wellformed(info) {
            Some(m) => MoveLike::Move(m),
            None => MoveLike::UciStr("a1a1".into()),
        }
    }

    fn perturb_san(&mut self, d: SanData) -> SanData {
        let r = self.rng.below(64) as u8;
        let f = self.rng.below(8) as u8;
        match d {
            SanData::Simple { piece, file, rank, capture, dst } => match self.rng.below(5) {
                0 => SanData::Simple { piece, file, rank, capture, dst: r },
                1 => SanData::Simple { piece, file: Some(f), rank, capture, dst },
                2 => SanData::Simple { piece, file, rank: Some(f), capture, dst },
                3 => SanData::Simple { piece, file, rank, capture: !capture, dst },
                _ => SanData::Simple { piece: [rm::N, rm::B, rm::R, rm::Q, rm::K][self.rng.below(5)], file, rank, capture, dst },
            },
            SanData::PawnMove { dst, promo } => match self.rng.below(3) {
                0 => SanData::PawnMove { dst: r, promo },
                1 => SanData::PawnMove { dst, promo: if promo.is_some() { None } else { Some(rm::Q) } },
                _ => SanData::PawnCapture { src_file: f, dst, promo },
            },
            SanData::PawnCapture { src_file, dst, promo } => match self.rng.below(4) {
                0 => SanData::PawnCapture { src_file: f, dst, promo },
                1 => SanData::PawnCapture { src_file, dst: r, promo },
                2 => SanData::PawnCapture { src_file, dst, promo: if promo.is_some() { None } else { Some(rm::N) } },
                _ => SanData::PawnCaptureShort { src_file, dst_file: f, promo },
            },
            SanData::PawnCaptureShort { src_file, dst_file, promo } => match self.rng.below(3) {
                0 => SanData::PawnCaptureShort { src_file: f, dst_file, promo },
                1 => SanData::PawnCaptureShort { src_file, dst_file: f, promo },
                _ => SanData::PawnCaptureShort { src_file, dst_file, promo: if promo.is_some() { None } else { Some(rm::R) } },
            },
            SanData::Castling { king_side } => SanData::Castling { king_side: !king_side },
            SanData::Uci { src, dst: _, promo } => SanData::Uci { src, dst: r, promo },
            SanData::UciNull => SanData::UciNull,
        }
    }

    fn random_san(&mut self, info: &Info) -> SanData {
        let dst = self.rng.below(64) as u8;
        match self.rng.below(6) {
            0 => SanData::Castling { king_side: self.rng.chance(50) },
            1 => SanData::PawnMove { dst, promo: if self.rng.chance(20) { Some(2 + self.rng.below(4) as u8) } else { None } },
            2 => SanData::PawnCapture { src_file: self.rng.below(8) as u8, dst, promo: None },
            3 => SanData::PawnCaptureShort {
                src_file: self.rng.below(8) as u8,
                dst_file: self.rng.below(8) as u8,
                promo: if self.rng.chance(20) { Some(rm::Q) } else { None },
            },
            _ => SanData::Simple {
                piece: [rm::N, rm::B, rm::R, rm::Q, rm::K][self.rng.below(5)],
                file: if self.rng.chance(25) { Some(self.rng.below(8) as u8) } else { None },
                rank: if self.rng.chance(25) { Some(self.rng.below(8) as u8) } else { None },
                capture: info.pos.sq[dst as usize] != 0,
                dst,
            },
        }
    }

    fn garble(&mut self, base: Option<String>) -> String {
        let rnd = |g: &mut Gen, n: usize| -> String {
            (0..n).map(|_| GARBAGE[g.rng.below(GARBAGE.len())] as char).collect()
        };
        match (base, self.rng.below(6)) {
            (Some(b), 0) => b[..self.rng.below(b.len() + 1).min(b.len())].to_string(), // truncation (ASCII)
            (Some(b), 1) => {
                let n = 1 + self.rng.below(2);
                format!("{}{}", b, rnd(self, n))
            }
            (Some(b), 2) => format!("{}{}", rnd(self, 1), b),
            (Some(b), 3) => {
                let mut v: Vec<u8> = b.into_bytes();
                if !v.is_empty() {
                    let i = self.rng.below(v.len());
                    v[i] = GARBAGE[self.rng.below(GARBAGE.len())];
                }
                String::from_utf8(v).unwrap_or_default()
            }
            (_, 4) => {
                let n = self.rng.below(4);
                rnd(self, n)
            }
            _ => {
                let n = 1 + self.rng.below(8);
                rnd(self, n)
            }
        }
    }

    /// Places multi-byte scalars so that the byte offsets the parsers slice at
    /// (2, 4, len-2, len-1) fall inside a scalar.
    fn widen(&mut self, base: &str) -> String {
        let wide = WIDE[self.rng.below(WIDE.len())];
        let chars: Vec<char> = base.chars().collect();
        match self.rng.below(5) {
            0 => {
                // replace one character
                let mut out = String::new();
                let i = self.rng.below(chars.len().max(1));
                for (j, c) in chars.iter().enumerate() {
                    if j == i {
                        out.push_str(wide);
                    } else {
                        out.push(*c);
                    }
                }
                out
            }
            1 => {
                // insert
                let i = self.rng.below(chars.len() + 1);
                let mut out: String = chars[..i].iter().collect();
                out.push_str(wide);
                out.extend(chars[i..].iter());
                out
            }
            2 => format!("{}{}", wide, wide),
            3 => {
                // a 4- or 5-byte string with a scalar across offset 2 or 4
                let pool = ["a\u{e9}4", "e2\u{e9}4", "e\u{e9}e4", "\u{20ac}1", "a1\u{20ac}", "\u{e9}\u{e9}", "N\u{e9}", "a\u{1d11e}", "e2e\u{e9}"];
                pool[self.rng.below(pool.len())].to_string()
            }
            _ => {
                let pool = ["N\u{e9}3", "\u{2658}f3", "Nf\u{e9}", "e\u{20ac}", "Q\u{20ac}", "\u{e9}xd5", "ex\u{e9}5", "O-O\u{e9}", "\u{e9}+", "K\u{e9}#"];
                pool[self.rng.below(pool.len())].to_string()
            }
        }
    }

    /// Castling (whenever the side still has a right) or en passant (whenever a mark is
    /// set and a pawn stands next to it) in a random form, whether or not it is legal right
    /// now - the corners where an almost-legal special move must be refused.
    fn special_attempt(&mut self, info: &Info) -> Option<MoveLike> {
        let pos = &info.pos;
        let mut cands: Vec<RMove> = Vec::new();
        let (qi, ki, row) = if pos.white { (rm::WQ, rm::WK, 7u8) } else { (rm::BQ, rm::BK, 0u8) };
        let king = rm::cell(pos.white, rm::K);
        if pos.castling[ki] {
            cands.push(RMove { kind: rm::K_CASTLE_K, cell: king, src: row * 8 + 4, dst: row * 8 + 6 });
        }
        if pos.castling[qi] {
            cands.push(RMove { kind: rm::K_CASTLE_Q, cell: king, src: row * 8 + 4, dst: row * 8 + 2 });
        }
        cands.extend(info.pseudo.iter().copied().filter(|m| m.kind == rm::K_EP));
        let m = *self.rng.pick(&cands)?;
        let variant = self.rng.next_u64() as u32;
        Some(match self.rng.below(5) {
            0 => MoveLike::Move(m),
            1 => MoveLike::UciStr(uci_text(&m)),
            2 => MoveLike::UciMove { src: m.src, dst: m.dst, promo: None },
            3 => MoveLike::SanMove { data: san_data_for(pos, &m, variant | 1), check: [0u8, 1, 3][self.rng.below(3)] },
            _ => MoveLike::SanStr(render_san(&san_data_for(pos, &m, variant | 1), [0u8, 1, 3, 2][self.rng.below(4)], variant >> 8)),
        })
    }

    fn gen_push(&mut self, w: &mut World) -> Op {
        let info = w.info().clone();
        if self.rng.chance(self.sw.special / 4 + 2) {
            if let Some(ml) = self.special_attempt(&info) {
                return Op::Push(ml);
            }
        }
        if self.sw.faults_on && info.in_check && self.rng.chance(30) {
            // in check nearly every pseudo-legal move is illegal; the SAN routes apply what they
            // resolve without re-testing the king, so this is where a wrong evasion shortcut shows
            let exposing: Vec<RMove> = info
                .pseudo
                .iter()
                .copied()
                .filter(|m| !info.legal.contains(m) && piece_of(m.cell) != rm::K)
                .collect();
            if let Some(m) = self.rng.pick(&exposing).copied() {
                let variant = self.rng.next_u64() as u32;
                let data = san_data_for(&info.pos, &m, variant | 1);
                return Op::Push(if self.rng.chance(50) {
                    MoveLike::SanMove { data, check: 0 }
                } else {
                    MoveLike::SanStr(render_san(&data, 0, variant >> 8))
                });
            }
        }
        if self.rng.chance(12) {
            // a legal move that has a pseudo-legal but ILLEGAL look-alike (same man, same target or -
            // for pawns - same file pattern): written without origin hints it must still resolve,
            // because disambiguation is among legal moves only
            let mut cands: Vec<(RMove, SanData)> = Vec::new();
            for m in &info.legal {
                if m.kind == rm::K_CASTLE_K || m.kind == rm::K_CASTLE_Q {
                    continue;
                }
                let pawn = piece_of(m.cell) == rm::P;
                let rival = info.pseudo.iter().any(|x| {
                    x != m
                        && x.cell == m.cell
                        && !info.legal.contains(x)
                        && if pawn {
                            file_of(x.src as usize) == file_of(m.src as usize)
                                && file_of(x.dst as usize) == file_of(m.dst as usize)
                                && x.promo_piece() == m.promo_piece()
                                && file_of(m.src as usize) != file_of(m.dst as usize)
                        } else {
                            x.dst == m.dst && x.kind == rm::K_SIMPLE
                        }
                });
                if !rival {
                    continue;
                }
                let data = if pawn {
                    SanData::PawnCaptureShort {
                        src_file: file_of(m.src as usize) as u8,
                        dst_file: file_of(m.dst as usize) as u8,
                        promo: m.promo_piece(),
                    }
                } else {
                    SanData::Simple {
                        piece: piece_of(m.cell),
                        file: None,
                        rank: None,
                        capture: info.pos.sq[m.dst as usize] != 0,
                        dst: m.dst,
                    }
                };
                cands.push((*m, data));
            }
            if let Some((_, data)) = self.rng.pick(&cands).cloned() {
                let variant = self.rng.next_u64() as u32;
                return Op::Push(if self.rng.chance(50) {
                    MoveLike::SanMove { data, check: 0 }
                } else {
                    MoveLike::SanStr(render_san(&data, 0, variant))
                });
            }
        }
        let want_fault = self.sw.faults_on
            && (self.rng.chance(self.sw.fault_pct) || (self.hot && self.rng.chance(self.sw.after_special)));
        if want_fault || info.legal.is_empty() {
            return Op::Push(self.faulty_like(&info));
        }
        let m = self.choose_legal(&info, w).unwrap();
        if self.rng.chance(6) {
            return Op::PushUnchecked(m);
        }
        if self.prop != C02 && self.prop != C17 && !info.in_check && self.rng.chance(2) {
            let null = RMove { kind: rm::K_NULL, cell: 0, src: 0, dst: 0 };
            return if self.rng.chance(50) { Op::PushUnchecked(null) } else { Op::Push(MoveLike::TryUnchecked(null)) };
        }
        if self.prop != C02 && self.prop != C17 && info.in_check && self.rng.chance(6) {
            // must be refused: the null move is never available to a side in check
            return Op::Push(MoveLike::TryUnchecked(RMove { kind: rm::K_NULL, cell: 0, src: 0, dst: 0 }));
        }
        Op::Push(self.legal_like(&info, &m))
    }

    fn gen_list(&mut self, w: &mut World) -> Op {
        let info = w.info().clone();
        let n = 1 + self.rng.below(6);
        let bad_at = if self.sw.faults_on && self.rng.chance(self.sw.list_fault_pct) { Some(self.rng.below(n + 1)) } else { None };
        let mut toks: Vec<String> = Vec::new();
        let mut pos: Pos = info.pos.clone();
        for i in 0..n {
            if Some(i) == bad_at {
                let here = Info { pos: pos.clone(), pseudo: pos.pseudo_legal(), legal: pos.legal(), in_check: pos.in_check() };
                let t = match self.rng.below(4) {
                    0 => match self.faulty_illegal(&here) {
                        MoveLike::Move(m) => uci_text(&m),
                        MoveLike::UciStr(s) => s,
                        MoveLike::UciMove { src, dst, .. } => format!("{}{}", rm::sq_name(src as usize), rm::sq_name(dst as usize)),
                        _ => "a1a1".into(),
                    },
                    1 => {
                        let g = self.garble(Some("e2e4".into()));
                        g.split_ascii_whitespace().next().unwrap_or("x").to_string()
                    }
                    2 => self.widen("e2e4").split_ascii_whitespace().next().unwrap_or("\u{e9}").to_string(),
                    _ => "0000".to_string(),
                };
                toks.push(t);
                // keep going: whatever follows must not be applied
            }
            let legal = pos.legal();
            let m = match self.rng.pick(&legal) {
                Some(m) => *m,
                None => break,
            };
            toks.push(uci_text(&m));
            pos = pos.make(m);
        }
        if Some(n) == bad_at {
            toks.push("zz".into());
        }
        let seps = [" ", " ", " ", "  ", "\t", "\n", " \r\n"];
        let mut text = String::new();
        if self.rng.chance(15) {
            text.push(' ');
        }
        for (i, t) in toks.iter().enumerate() {
            if i > 0 {
                text.push_str(seps[self.rng.below(seps.len())]);
            }
            text.push_str(t);
        }
        if self.rng.chance(15) {
            text.push_str(" ");
        }
        Op::PushUciList(text)
    }

    fn gen_outcome(&mut self, w: &World, prop: u32) -> Op {
        let spec = |g: &mut Gen| -> OutcomeSpec {
            if g.rng.chance(50) {
                OutcomeSpec::Win(g.rng.chance(50), g.rng.below(7) as u8)
            } else {
                OutcomeSpec::Draw(g.rng.below(8) as u8)
            }
        };
        if w.rc.outcome.is_some() {
            return match self.rng.below(4) {
                0 | 1 => Op::ClearOutcome,
                2 => Op::ResetOutcome(Some(spec(self))),
                _ => Op::ResetOutcome(None),
            };
        }
        let auto = if prop == C14 { 75 } else { 40 };
        if self.rng.chance(auto) {
            Op::SetAuto(self.rng.below(3) as u8)
        } else if self.rng.chance(60) {
            Op::SetOutcome(spec(self))
        } else {
            Op::ResetOutcome(Some(spec(self)))
        }
    }

    fn gen_read(&mut self, w: &World) -> Op {
        let walkers = 1 + self.rng.below(4) as u8;
        // long chains get long scripts now and then, so that their middle is walked too
        let n = if w.rc.len() > 48 && self.rng.chance(30) {
            [128usize, 200, 256][self.rng.below(3)]
        } else {
            [4usize, 8, 16, 32, 64][self.rng.below(5)]
        };
        let mut script = Vec::with_capacity(n);
        let mut dir = vec![true; walkers as usize];
        for _ in 0..n {
            let wi = self.rng.below(walkers as usize);
            if self.rng.chance(20) {
                dir[wi] = !dir[wi];
            }
            let op = match self.rng.below(20) {
                0 => WOp::Start,
                1 | 2 => WOp::End,
                3 | 4 => WOp::Pos,
                5 => WOp::Len,
                6 if self.rng.chance(40) => WOp::Renew,
                _ => {
                    if dir[wi] {
                        WOp::Next
                    } else {
                        WOp::Prev
                    }
                }
            };
            script.push((wi as u8, op));
        }
        let mut prints = Vec::new();
        for _ in 0..self.rng.below(4) {
            let styled = if self.rng.chance(25) {
                None
            } else {
                Some((self.rng.below(3) as u8, self.rng.below(3) as u8, self.rng.below(2) as u8))
            };
            let custom = match self.rng.below(5) {
                0 => 0,
                1 => 1,
                2 => self.rng.below(500) as u64,
                3 => 1u64 << 32,
                _ => self.rng.below(70000) as u64,
            };
            let sink_limit = if self.rng.chance(self.sw.sink_fault_pct) {
                Some(match self.rng.below(5) {
                    0 => 0,
                    1 => 1 + self.rng.below(4) as u32,
                    2 => 5 + self.rng.below(20) as u32,
                    _ => self.rng.below(6 * w.rc.len().max(1)) as u32,
                })
            } else {
                None
            };
            let custom = if styled.is_none() { 0 } else { custom };
            prints.push(PrintSpec { styled, custom, sink_limit });
        }
        Op::Read(ReadPhase { walkers, script, prints })
    }

    fn gen_fen(&mut self, w: &mut World) -> Op {
        let mut p = w.info().pos.clone();
        match self.rng.below(8) {
            0 => {}
            1 => p.white = !p.white,
            2 => p.ep = Some(((if p.white { 3 } else { 4 }) * 8 + self.rng.below(8)) as u8),
            3 => {
                for i in 0..4 {
                    p.castling[i] = self.rng.chance(50);
                }
            }
            4 => {
                let s = self.rng.below(64);
                p.sq[s] = self.rng.below(13) as u8;
            }
            5 => {
                p.clock = [0u16, 99, 100, 149, 150, 65535][self.rng.below(6)];
                p.number = [1u16, 2, 65535][self.rng.below(3)];
            }
            6 => {
                if self.rng.chance(50) {
                    let s = self.rng.below(64);
                    p.sq[s] = 0;
                } else if let Some(k) = p.king_sq(self.rng.chance(50)) {
                    let t = self.rng.below(64);
                    if t != k {
                        p.sq[t] = p.sq[k];
                        p.sq[k] = 0;
                    }
                }
            }
            _ => {
                let fen = p.to_fen();
                return Op::FenProbe(self.garble(Some(fen)));
            }
        }
        Op::FenProbe(p.to_fen())
    }

    fn gen_raw(&mut self, w: &mut World) -> Op {
        let pos = w.info().pos.clone();
        let e = match self.rng.below(20) {
            0..=9 => {
                let s = self.rng.below(64) as u8;
                let c = if pos.sq[s as usize] != 0 && self.rng.chance(40) { 0 } else { self.rng.below(13) as u8 };
                Edit::Square(s, c)
            }
            10 => Edit::Side,
            11 => {
                // relocate a man - kings included, which a one-square edit can never do
                let men: Vec<usize> = (0..64).filter(|&i| pos.sq[i] != 0).collect();
                let kings: Vec<usize> = men.iter().copied().filter(|&i| rm::piece_of(pos.sq[i]) == rm::K).collect();
                let from = if self.rng.chance(60) { kings[self.rng.below(kings.len().max(1)) % kings.len().max(1)] } else { men[self.rng.below(men.len())] };
                Edit::MoveMan(from as u8, self.rng.below(64) as u8)
            }
            12..=14 => Edit::Castling(self.rng.below(4) as u8),
            15 | 16 => Edit::Ep(self.rng.below(9) as u8),
            17 | 18 => Edit::Clock([0u16, 1, 50, 99, 100, 150, 65535][self.rng.below(7)]),
            _ => Edit::Number([1u16, 2, 100, 65535][self.rng.below(4)]),
        };
        Op::RawProbe(e)
    }

    fn gen_sstep(&mut self, w: &World) -> Op {
        let idx = self.rng.below(w.searchers.len());
        let s = &w.searchers[idx];
        if s.stack.last().map_or(false, |f| f.transient) {
            return Op::S(idx as u8, SOp::Unmake);
        }
        let info = Info::of(&s.board);
        let mut sw = self.sw.s_w;
        if s.stack.is_empty() {
            sw[6] = 0;
        }
        if s.stack.len() >= MAX_DEPTH || s.nodes >= 300 {
            let retire = self.sw.s_w[6] == 0 || (s.nodes >= 300 && self.rng.chance(30));
            return Op::S(idx as u8, if retire { SOp::Retire } else { SOp::Unmake });
        }
        let sop = match self.rng.weighted(&sw) {
            0 => match self.pick_pseudo(&info) {
                Some(m) => SOp::Make(m),
                None => SOp::Unmake,
            },
            1 => match self.pick_pseudo(&info) {
                Some(m) => SOp::TryUnchecked(m),
                None => SOp::Unmake,
            },
            2 => SOp::MakeNull,
            3 => SOp::TryNull,
            4 => SOp::TryRaw(self.any_like(&info)),
            5 => SOp::Functional(self.any_like(&info)),
            6 => SOp::Unmake,
            _ => SOp::Retire,
        };
        Op::S(idx as u8, sop)
    }

    fn pick_pseudo(&mut self, info: &Info) -> Option<RMove> {
        if info.pseudo.is_empty() {
            return None;
        }
        // captures on a rook's home square change castling rights in make and must give them
        // back in un-make: rare in random play, so look for them explicitly
        if self.rng.chance(15) {
            let corner: Vec<RMove> = info
                .pseudo
                .iter()
                .copied()
                .filter(|m| matches!(m.dst, 0 | 7 | 56 | 63) && info.pos.sq[m.dst as usize] != 0)
                .collect();
            if let Some(m) = self.rng.pick(&corner) {
                return Some(*m);
            }
        }
        // bias toward king-exposing and special moves: the interesting undo paths
        if self.rng.chance(25) {
            let exposing: Vec<RMove> = info.pseudo.iter().copied().filter(|m| !info.legal.contains(m)).collect();
            if let Some(m) = self.rng.pick(&exposing) {
                return Some(*m);
            }
        }
        if self.rng.chance(self.sw.special.max(20)) {
            let sp: Vec<RMove> = info
                .pseudo
                .iter()
                .copied()
                .filter(|m| m.kind != rm::K_SIMPLE || info.pos.sq[m.dst as usize] != 0)
                .collect();
            if let Some(m) = self.rng.pick(&sp) {
                return Some(*m);
            }
        }
        self.rng.pick(&info.pseudo).copied()
    }

    fn any_like(&mut self, info: &Info) -> MoveLike {
        if self.rng.chance(self.sw.special / 4 + 2) {
            if let Some(ml) = self.special_attempt(info) {
                return ml;
            }
        }
        let fault = self.sw.faults_on && self.rng.chance(self.sw.fault_pct.max(15));
        if fault || info.legal.is_empty() {
            return self.faulty_like(info);
        }
        let m = *self.rng.pick(&info.legal).unwrap();
        self.legal_like(info, &m)
    }

    /// The scheduler: picks a runnable task and one operation from its alphabet.
    pub fn next_op(&mut self, w: &mut World, prop: u32) -> Op {
        self.prop = prop;
        if self.step0 {
            self.blind_pct = [0u32, 0, 0, 4, 10][self.rng.below(5)];
            self.step0 = false;
            if self.rng.chance(30) {
                return Op::Construct(self.rng.below(5) as u8);
            }
        }
        // blind bursts: a few pushes / pops / outcome changes that nothing reads back
        if w.blind {
            if self.blind_left == 0 {
                return Op::Blind(false);
            }
            self.blind_left -= 1;
            let finished = w.rc.outcome.is_some();
            return match self.rng.below(10) {
                0..=5 if !finished => self.gen_push(w),
                6 | 7 => Op::Pop,
                8 if finished => Op::ClearOutcome,
                _ => {
                    if finished {
                        Op::ResetOutcome(None)
                    } else {
                        Op::SetOutcome(OutcomeSpec::Draw(self.rng.below(8) as u8))
                    }
                }
            };
        }
        if self.blind_pct > 0 && self.rng.chance(self.blind_pct) {
            self.blind_left = 2 + self.rng.below(11);
            return Op::Blind(true);
        }
        if self.sparse.is_none() {
            let sparse = prop == C14 && self.rng.chance(35);
            self.sparse = Some(sparse);
            if sparse {
                return Op::SparseOutcomeQueries;
            }
        }
        if self.sparse == Some(true) && self.rng.chance(6) {
            return Op::QueryOutcome;
        }
        let mut wts = self.sw.w;
        if w.searchers.is_empty() {
            wts[CAT_SSTEP] = 0;
        }
        if w.searchers.len() >= MAX_SEARCHERS {
            wts[CAT_SPAWN] = 0;
        }
        if w.rc.len() == 0 {
            wts[CAT_POP] /= 4;
        }
        if w.rc.len() >= MAX_CHAIN_LEN - 8 {
            wts[CAT_PUSH] = 0;
            wts[CAT_LIST] = 0;
            wts[CAT_POP] = wts[CAT_POP].max(20);
        }
        if self.hot && self.sw.faults_on && self.rng.chance(self.sw.after_special / 2) {
            // a rebuild right after a pop / special move
            wts[CAT_REBUILD_MOVES] = wts[CAT_REBUILD_MOVES].max(1) * 20;
        }
        let cat = self.rng.weighted(&wts);
        let finished = w.rc.outcome.is_some();
        let op = match cat {
            CAT_PUSH | CAT_LIST if finished => match self.rng.below(10) {
                0..=4 => Op::ClearOutcome,
                5..=7 => Op::Pop,
                _ => Op::ResetOutcome(None),
            },
            CAT_PUSH => self.gen_push(w),
            CAT_LIST => self.gen_list(w),
            CAT_POP => Op::Pop,
            CAT_OUTCOME => self.gen_outcome(w, prop),
            CAT_FORK => {
                if !w.parked.is_empty() && self.rng.chance(60) {
                    Op::ParkedStep(self.rng.below(w.parked.len()) as u8, self.rng.below(3) as u8, self.rng.below(200) as u8)
                } else {
                    Op::Fork(if self.rng.chance(35) { 1 } else { 0 })
                }
            }
            CAT_EQ => {
                // with kept originals around, compare against them often
                let variant = if !w.parked.is_empty() && self.rng.chance(40) { 10 } else { self.rng.below(11) };
                Op::EqTwin((variant + 11 * self.rng.below(200)) as u16)
            }
            CAT_REBUILD_MOVES => Op::RebuildMoves,
            CAT_REBUILD_UCI => Op::RebuildUci,
            CAT_BOARD_MAKE => {
                let info = w.info().clone();
                Op::BoardMake(self.any_like(&info))
            }
            CAT_FEN => self.gen_fen(w),
            CAT_RAW => self.gen_raw(w),
            CAT_READ => self.gen_read(w),
            CAT_SPAWN => Op::Spawn,
            _ => self.gen_sstep(w),
        };
        op
    }

    /// Called after each executed step so that faults can be biased to land right
    /// after a pop or a special move.
    pub fn observe(&mut self, op: &Op, w: &World) {
        self.hot = match op {
            Op::Pop => true,
            Op::Push(_) | Op::PushUnchecked(_) | Op::PushUciList(_) => w.rc.moves.last().map_or(false, |m| {
                use owlchess::MoveKind::*;
                !matches!(m.kind(), Simple | Null)
            }),
            Op::SetOutcome(_) | Op::SetAuto(_) => true,
            _ => false,
        };
    }
}

#[allow(dead_code)]
fn _unused(p: &Pos) -> (i32, i32) {
    let _ = pos_of;
    (file_of(p.ep.unwrap_or(0) as usize), row_of(0))
}
