//! Searcher tasks: private boards driven through nested make / un-make, the
//! `Make::make_raw` family and the functional `Make::make`.

use crate::denote::denote;
use crate::full::{move_of, pos_of, rmove_of, Full};
use crate::lib_api::{make_like, make_raw_like};
use crate::ops::{MoveLike, SOp};
use crate::refmodel::{self as rm, RMove};
use crate::world::*;
use owlchess::movegen::semilegal;
use owlchess::moves::{make::TryUnchecked, make_move_unchecked, unmake_move_unchecked, Make};
use owlchess::{Board, Move};

/// What kind of injected refusal this was (only used for the fault counters).
pub fn classify_refusal(ml: &MoveLike, info: &Info) -> &'static str {
    match ml {
        MoveLike::Move(m) => {
            if info.pseudo.contains(m) {
                "fault.refuse-king-exposing-move"
            } else if info.legal.iter().any(|l| l.src == m.src && l.dst == m.dst) {
                "fault.refuse-wrong-kind"
            } else {
                "fault.refuse-illegal-move"
            }
        }
        MoveLike::UciMove { .. } | MoveLike::UciNull => "fault.refuse-uci",
        MoveLike::Unchecked(_) | MoveLike::TryUnchecked(_) => "fault.refuse-king-exposing-move",
        MoveLike::SanMove { .. } => "fault.refuse-san",
        MoveLike::UciStr(s) => {
            if !s.is_ascii() {
                "fault.multibyte-text"
            } else if crate::denote::parse_known_uci(s).is_some() {
                "fault.refuse-uci"
            } else {
                "fault.malformed-text"
            }
        }
        MoveLike::SanStr(s) => {
            if !s.is_ascii() {
                "fault.multibyte-text"
            } else if crate::denote::parse_known_san(s).is_some() {
                "fault.refuse-san"
            } else {
                "fault.malformed-text"
            }
        }
    }
}

impl World {
    pub(crate) fn op_spawn(&mut self) -> R {
        if self.searchers.len() >= MAX_SEARCHERS {
            return Ok(Exec::Skipped);
        }
        // half of the private boards are made by clone(), half by clone_from() into a board that
        // held another position
        let b = if self.step % 2 == 0 {
            self.chain.last().clone()
        } else {
            let mut other = self.rc.replayed[0].clone();
            other.clone_from(self.chain.last());
            other
        };
        let origin = Full::of(self.chain.last());
        if let Some(d) = Full::of(&b).diff(&origin) {
            for p in [C05, C02] {
                if self.on(p) {
                    return Err(self.fail(
                        p,
                        if p == C05 { "hidden-state" } else { "invalid-position" },
                        format!("a copy of the board (clone / clone_from) differs from its original (copy vs original): {}", d),
                    ));
                }
            }
        }
        self.searchers.push(Searcher { board: b, origin, stack: vec![], nodes: 0, tainted: false });
        self.stats.hit("op.spawn-searcher");
        Ok(Exec::Done)
    }

    /// Un-makes everything (LIFO) and checks that the board is bit-identical to the
    /// board the searcher was cloned from.
    pub(crate) fn retire_searcher(&mut self, idx: usize) -> Result<(), Violation> {
        if !self.on(C04) && !self.on(C05) {
            // nothing about un-making is being judged: just drop the private board
            self.searchers.remove(idx);
            self.stats.hit("op.retire-searcher");
            return Ok(());
        }
        while !self.searchers[idx].stack.is_empty() {
            self.searcher_unmake(idx)?;
        }
        let s = self.searchers.remove(idx);
        if let Some(d) = Full::of(&s.board).diff(&s.origin) {
            if self.on(C04) {
                return Err(self.fail(
                    C04,
                    "undo-mismatch",
                    format!("after un-making a whole search tree the board differs from its origin (now vs origin): {}", d),
                ));
            }
        }
        self.stats.hit("op.retire-searcher");
        Ok(())
    }

    fn searcher_unmake(&mut self, idx: usize) -> Result<(), Violation> {
        self.searchers[idx].tainted = true;
        let fr = self.searchers[idx].stack.pop().unwrap();
        unsafe { unmake_move_unchecked(&mut self.searchers[idx].board, fr.mv, fr.undo) };
        self.stats.hit("op.s-unmake");
        if fr.transient {
            self.stats.hit("probe.unmake-from-king-attacked-state");
        }
        let kind_made = fr.mv;
        self.note_kind_undone(&kind_made);
        let after = Full::of(&self.searchers[idx].board);
        if let Some(d) = after.diff(&fr.before) {
            if self.on(C04) {
                return Err(self.fail(
                    C04,
                    "undo-mismatch",
                    format!(
                        "make + un-make of {} at depth {} did not restore the position {} (now vs before): {}",
                        fmt_rmove(&rmove_of(&fr.mv)),
                        self.searchers[idx].stack.len(),
                        crate::full::pos_of_raw(&fr.before.raw).to_fen(),
                        d
                    ),
                ));
            }
        }
        Ok(())
    }

    fn note_kind_undone(&mut self, m: &Move) {
        use owlchess::MoveKind::*;
        let k = match m.kind() {
            CastlingKingside => "probe.castle-k-undone",
            CastlingQueenside => "probe.castle-q-undone",
            Enpassant => "probe.ep-undone",
            PawnDouble => "probe.double-undone",
            PromoteKnight | PromoteBishop | PromoteRook | PromoteQueen => "probe.promo-undone",
            Null => "probe.null-undone",
            _ => return,
        };
        self.stats.hit(k);
    }

    fn note_kind_made(&mut self, m: &Move, capture_rook_home: bool) {
        use owlchess::MoveKind::*;
        let k = match m.kind() {
            CastlingKingside => "probe.castle-k-made",
            CastlingQueenside => "probe.castle-q-made",
            Enpassant => "probe.ep-made",
            PawnDouble => "probe.double-made",
            PromoteKnight | PromoteBishop | PromoteRook | PromoteQueen => "probe.promo-made",
            Null => "probe.null-made",
            _ => "",
        };
        if !k.is_empty() {
            self.stats.hit(k);
        }
        if capture_rook_home {
            self.stats.hit("probe.rook-captured-on-home-square");
        }
    }

    /// A valid (non-transient) searcher state: hidden state must equal a
    /// from-scratch recomputation.
    fn searcher_valid_state(&mut self, idx: usize) -> Result<(), Violation> {
        let b = self.searchers[idx].board.clone();
        let f = Full::of(&b);
        self.record_position(&b, &f)
    }

    pub(crate) fn op_searcher(&mut self, idx: usize, sop: &SOp) -> R {
        if idx >= self.searchers.len() {
            return Ok(Exec::Skipped);
        }
        // C02 is about positions obtained without unsafe code: on a board that an unsafe
        // primitive has touched its oracles are switched off for the duration of the step.
        let saved = self.props;
        if self.searchers[idx].tainted {
            self.props &= !C02;
            if saved & C02 != 0 {
                self.stats.hit("note.c02-not-judged-on-board-touched-by-unsafe-code");
            }
        }
        let r = self.op_searcher_inner(idx, sop);
        self.props = saved;
        r
    }

    fn op_searcher_inner(&mut self, idx: usize, sop: &SOp) -> R {
        let transient = self.searchers[idx].stack.last().map_or(false, |f| f.transient);
        match sop {
            SOp::Retire => {
                self.retire_searcher(idx)?;
                return Ok(Exec::Done);
            }
            SOp::Unmake => {
                if self.searchers[idx].stack.is_empty() {
                    return Ok(Exec::Skipped);
                }
                self.searcher_unmake(idx)?;
                return Ok(Exec::Done);
            }
            _ => {}
        }
        if !self.on(C02) && !self.on(C05) && !transient {
            let b = &self.searchers[idx].board;
            if !hidden_consistent(b, &Full::of(b)) {
                // see check_invariants: not this property's business, and not a board to go on with
                self.searchers.remove(idx);
                self.stats.hit("note.searcher-dropped-at-inconsistent-hidden-state");
                return Ok(Exec::Skipped);
            }
        }
        // Everything else needs a valid board, room on the stack and node budget.
        if transient || self.searchers[idx].stack.len() >= MAX_DEPTH || self.searchers[idx].nodes >= 300 {
            return Ok(Exec::Skipped);
        }
        let info = Info::of(&self.searchers[idx].board);
        match sop {
            SOp::Make(m) | SOp::TryUnchecked(m) => {
                // precondition of the unsafe primitives: semilegal for the library and
                // pseudo-legal for the model
                if !info.pseudo.contains(m) {
                    return Ok(Exec::Skipped);
                }
                let mv = match move_of(m) {
                    Some(mv) => mv,
                    None => return Ok(Exec::Skipped),
                };
                if !semilegal::gen_all(&self.searchers[idx].board).contains(&mv) {
                    return Ok(Exec::Skipped);
                }
                let before = Full::of(&self.searchers[idx].board);
                self.searchers[idx].tainted = true;
                let model_exposes = !info.pos.is_legal_after(*m);
                let rook_home = matches!(m.dst, 0 | 7 | 56 | 63)
                    && info.pos.sq[m.dst as usize] != 0
                    && rm::piece_of(info.pos.sq[m.dst as usize]) == rm::R;
                if let SOp::Make(_) = sop {
                    let undo = unsafe { make_move_unchecked(&mut self.searchers[idx].board, mv) };
                    let lib_exposes = self.searchers[idx].board.is_opponent_king_attacked();
                    self.searchers[idx].nodes += 1;
                    self.stats.hit("op.s-make");
                    self.note_kind_made(&mv, rook_home);
                    self.note_geometry(&info.pos, m);
                    let transient = lib_exposes || model_exposes;
                    if transient {
                        self.stats.hit("probe.king-attacked-after-make");
                    }
                    self.searchers[idx].stack.push(Frame { mv, undo, before, transient });
                    if !transient {
                        self.searcher_valid_state(idx)?;
                    }
                } else {
                    let res = unsafe { TryUnchecked::new(mv) }.make_raw(&mut self.searchers[idx].board);
                    self.searchers[idx].nodes += 1;
                    self.stats.hit("op.s-try-unchecked");
                    match res {
                        Ok((amv, undo)) => {
                            self.note_kind_made(&mv, rook_home);
                            // the successor is judged on its own merits, not against the model's expectation
                            let bad = pos_of(&self.searchers[idx].board).opponent_in_check();
                            self.searchers[idx].stack.push(Frame { mv: amv, undo, before, transient: bad });
                            if !bad {
                                self.searcher_valid_state(idx)?;
                            }
                        }
                        Err(_) => {
                            self.stats.hit("fault.refuse-king-exposing-move");
                            self.stats.hit("probe.rollback-king-exposing");
                            let after = Full::of(&self.searchers[idx].board);
                            if let Some(d) = after.diff(&before) {
                                if self.on(C04) {
                                    return Err(self.fail(
                                        C04,
                                        "undo-mismatch",
                                        format!(
                                            "refused (king-exposing) {} was not rolled back exactly at {} (now vs before): {}",
                                            fmt_rmove(m),
                                            info.pos.to_fen(),
                                            d
                                        ),
                                    ));
                                }
                            }
                        }
                    }
                }
            }
            SOp::MakeNull | SOp::TryNull => {
                let before = Full::of(&self.searchers[idx].board);
                if let SOp::TryNull = sop {
                    self.searchers[idx].tainted = true;
                }
                if let SOp::MakeNull = sop {
                    if info.in_check || self.searchers[idx].board.is_check() {
                        return Ok(Exec::Skipped);
                    }
                    self.searchers[idx].tainted = true;
                    let undo = unsafe { make_move_unchecked(&mut self.searchers[idx].board, Move::NULL) };
                    self.searchers[idx].nodes += 1;
                    self.stats.hit("op.s-make-null");
                    self.note_kind_made(&Move::NULL, false);
                    self.searchers[idx].stack.push(Frame { mv: Move::NULL, undo, before, transient: false });
                    self.searcher_valid_state(idx)?;
                } else {
                    let res = unsafe { TryUnchecked::new(Move::NULL) }.make_raw(&mut self.searchers[idx].board);
                    self.searchers[idx].nodes += 1;
                    self.stats.hit("op.s-try-null");
                    match res {
                        Ok((amv, undo)) => {
                            self.note_kind_made(&Move::NULL, false);
                            let bad = pos_of(&self.searchers[idx].board).opponent_in_check();
                            self.searchers[idx].stack.push(Frame { mv: amv, undo, before, transient: bad });
                            if !bad {
                                self.searcher_valid_state(idx)?;
                            }
                        }
                        Err(_) => {
                            self.stats.hit("fault.null-in-check");
                            let after = Full::of(&self.searchers[idx].board);
                            if let Some(d) = after.diff(&before) {
                                if self.on(C04) {
                                    return Err(self.fail(
                                        C04,
                                        "undo-mismatch",
                                        format!("refused null move was not rolled back exactly at {}: {}", info.pos.to_fen(), d),
                                    ));
                                }
                            }
                        }
                    }
                }
            }
            SOp::TryRaw(ml) => {
                if !crate::lib_api::unsafe_like_ok(&info, &self.searchers[idx].board, ml) {
                    return Ok(Exec::Skipped);
                }
                let den = denote(&info.pos, &info.legal, ml);
                let before = Full::of(&self.searchers[idx].board);
                let res = match make_raw_like(&mut self.searchers[idx].board, ml) {
                    Some(r) => r,
                    None => return Ok(Exec::Skipped),
                };
                self.searchers[idx].nodes += 1;
                self.stats.hit("op.s-make-raw");
                match res {
                    Ok((amv, undo)) => {
                        if ml.is_unsafe_built() {
                            self.searchers[idx].tainted = true;
                        }
                        self.judge_accept(&den, &amv, ml, &info.pos)?;
                        self.note_kind_made(&amv, false);
                        let b = self.searchers[idx].board.clone();
                        self.searchers[idx].stack.push(Frame { mv: amv, undo, before, transient: false });
                        // make sure a broken successor is not searched any further
                        let bad = pos_of(&b).opponent_in_check();
                        self.check_valid(&b, &format!("board after make_raw({})", ml.pretty()))?;
                        if bad {
                            self.searchers[idx].stack.last_mut().unwrap().transient = true;
                        } else {
                            self.searcher_valid_state(idx)?;
                        }
                    }
                    Err(e) => {
                        self.stats.hit(classify_refusal(ml, &info));
                        let after = Full::of(&self.searchers[idx].board);
                        if let Some(d) = after.diff(&before) {
                            let undo_path = World::names_pseudo_legal(&info, ml);
                            for p in [C02, C04] {
                                if p == C04 && !undo_path {
                                    continue;
                                }
                                if self.on(p) {
                                    return Err(self.fail(
                                        p,
                                        "atomicity",
                                        format!(
                                            "refused make_raw({}) changed the board at {} (now vs before): {}",
                                            ml.pretty(),
                                            info.pos.to_fen(),
                                            d
                                        ),
                                    ));
                                }
                            }
                        }
                        self.judge_refuse(&den, ml, &info.pos, &e)?;
                    }
                }
            }
            SOp::Functional(ml) => {
                let b = self.searchers[idx].board.clone();
                self.functional_make(&b, &info, ml)?;
            }
            SOp::Unmake | SOp::Retire => unreachable!(),
        }
        Ok(Exec::Done)
    }

    /// `board.make_move(x)` judged for C02: validity of the result, acceptance iff
    /// legal (the applied move is identified through the in-place path on a copy),
    /// argument untouched.
    pub(crate) fn functional_make(&mut self, b: &Board, info: &Info, ml: &MoveLike) -> R {
        if !crate::lib_api::unsafe_like_ok(info, b, ml) {
            return Ok(Exec::Skipped);
        }
        let den = denote(&info.pos, &info.legal, ml);
        let before = Full::of(b);
        let res = match make_like(b, ml) {
            Some(r) => r,
            None => return Ok(Exec::Skipped),
        };
        self.stats.hit("op.functional-make");
        if let Some(d) = before.diff(&Full::of(b)) {
            if self.on(C02) {
                return Err(self.fail(C02, "atomicity", format!("functional make_move changed its argument: {}", d)));
            }
        }
        match res {
            Ok(nb) => {
                self.check_valid(&nb, &format!("board returned by make_move({})", ml.pretty()))?;
                let mut copy = b.clone();
                match make_raw_like(&mut copy, ml) {
                    Some(Ok((amv, _))) => self.judge_accept(&den, &amv, ml, &info.pos)?,
                    _ => {
                        if self.on(C02) {
                            return Err(self.fail(
                                C02,
                                "accept-not-legal",
                                format!(
                                    "{} at {}: accepted by Make::make but refused by Make::make_raw - one of the two answers is not 'legal'",
                                    ml.pretty(),
                                    info.pos.to_fen()
                                ),
                            ));
                        }
                    }
                }
                if !pos_of(&nb).opponent_in_check() {
                    let f = Full::of(&nb);
                    self.record_position(&nb, &f)?;
                }
            }
            Err(e) => {
                self.stats.hit(classify_refusal(ml, info));
                self.judge_refuse(&den, ml, &info.pos, &e)?;
            }
        }
        Ok(Exec::Done)
    }
}

#[allow(dead_code)]
pub fn rmove_in(list: &[RMove], m: &RMove) -> bool {
    list.contains(m)
}
